package sd

import (
	"fmt"
	"net/mail"
	"strings"
	"time"

	"github.com/inbucket/inbucket/v3/pkg/storage"
)

// Mode direct@meta: the metadata handed to AddMessage is long or odd, as a function of the delivery's
// tag (so the model's tag still identifies it): subject lengths 0, 1, 997..1000, 1500, 5000, 70 000;
// multi-byte characters straddling octets 998 / 1024 / 4096; invalid UTF-8, NUL, CR / LF / TAB in the
// subject; long and odd From display names; To lists of 0, 1, 60, 500 addresses; sub-second parts and
// non-UTC zones of the date (the instant is an input of the history: zero time, far past, far future).
// Whatever is read back (GetMessage, GetMessages, visitor) is compared field by field; dates by
// instant (the file store's gob round trip loses the location pointer, not the instant).

type oddMeta struct {
	subject string
	from    *mail.Address
	to      []*mail.Address
	date    time.Time
}

func fill(n int, tag int) string {
	b := make([]byte, n)
	for i := range b {
		b[i] = byte('a' + (tag+i)%26)
	}
	return string(b)
}

// straddle returns a string of about n+2 octets in which a 3-byte character covers octets n-1..n+1.
func straddle(n, tag int) string {
	return fill(n-2, tag) + "€€" + fill(7, tag)
}

func makeOddMeta(tag int, unix int64) *oddMeta {
	subjects := []func() string{
		func() string { return "" },
		func() string { return "x" },
		func() string { return fill(997, tag) },
		func() string { return fill(998, tag) },
		func() string { return fill(999, tag) },
		func() string { return fill(1000, tag) },
		func() string { return fill(1500, tag) },
		func() string { return fill(5000, tag) },
		func() string { return fill(70000, tag) },
		func() string { return straddle(998, tag) },
		func() string { return straddle(1024, tag) },
		func() string { return straddle(4096, tag) },
		func() string { return "bad \xff\xfe utf8 \xc3" },
		func() string { return "nul \x00 inside" },
		func() string { return "line1\r\nline2\n\ttabbed\rcr" },
		func() string { return strings.Repeat("é", 600) }, // 1200 octets, 2-byte characters throughout
	}
	names := []string{"", "Alice", fill(3000, tag), "Quote \" and <angle> and \\ back", "Ünï cödé ✉", "nul \x00 name"}
	tos := []int{1, 0, 60, 1, 500, 2}
	om := &oddMeta{subject: subjects[tag%len(subjects)]()}
	om.from = &mail.Address{Name: names[(tag/2)%len(names)], Address: fmt.Sprintf("from%d@example.com", tag)}
	n := tos[(tag/3)%len(tos)]
	om.to = make([]*mail.Address, n)
	for i := range om.to {
		om.to[i] = &mail.Address{Name: fmt.Sprintf("R%d", i), Address: fmt.Sprintf("to%d-%d@example.org", tag, i)}
	}
	nsec := int64(0)
	if tag%2 == 1 {
		nsec = int64(tag*137031+1) % 1000000000
	}
	t := time.Unix(unix, nsec)
	switch tag % 4 {
	case 0:
		t = t.UTC()
	case 1:
		t = t.In(time.FixedZone("IST", 5*3600+1800))
	case 2:
		t = t.In(time.FixedZone("", -9*3600))
	}
	om.date = t
	return om
}

// diff lists the metadata fields of m that do not read back as written: s subject, f from, t to, d date.
func (om *oddMeta) diff(m storage.Message) string {
	bad := ""
	if m.Subject() != om.subject {
		bad += fmt.Sprintf("s%d/%d", len(m.Subject()), len(om.subject))
	}
	f := m.From()
	if f == nil || f.Name != om.from.Name || f.Address != om.from.Address {
		bad += "f"
	}
	to := m.To()
	if len(to) != len(om.to) {
		bad += fmt.Sprintf("t%d/%d", len(to), len(om.to))
	} else {
		for i := range to {
			if to[i] == nil || to[i].Name != om.to[i].Name || to[i].Address != om.to[i].Address {
				bad += "t"
				break
			}
		}
	}
	if !m.Date().Equal(om.date) {
		bad += "d"
	}
	return bad
}

package sd

import (
	"bytes"
	"fmt"
	"net/mail"
	"runtime"
	"sort"
	"strconv"
	"strings"
	"sync"
	"time"

	"github.com/inbucket/inbucket/v3/pkg/config"
	"github.com/inbucket/inbucket/v3/pkg/extension/event"
	"github.com/inbucket/inbucket/v3/pkg/message"
	"github.com/inbucket/inbucket/v3/pkg/storage"
	"github.com/inbucket/inbucket/v3/pkg/storage/mem"
	"github.com/inbucket/inbucket/v3/pkg/verifhook"
	"verifharness/vh"
)

// Forced schedules of concurrent store operations on the memory store (C16: the event counts
// hold under EVERY schedule of the operations against each other and against the size enforcer):
//
//	conc <cap> <maxkb> <prefix> <ops> <sched>
//
// prefix  sequential set-up: a<mb>:<size>,…  (message tags 0,1,2,… in order of delivery)
// ops     2–3 operations run concurrently, one goroutine each: a<mb>:<size> | r<mb>:<tag> | p<mb>
// sched   string of operation indices: at every step the named operation is released and runs to
//         its next verifhook.Point (pkg/storage/mem: mem.wm.lock, mem.add.visible, mem.add.register,
//         mem.purge.swapped, mem.enfremove, mem.deliver.sent, mem.remove.sent) or to its end; when
//         the schedule is exhausted everything runs freely to the end. The enforcer goroutine is
//         not parked. A step whose operation cannot move (it waits for a lock or for the enforcer)
//         times out after 100 ms and the schedule goes on.
//
// Observation after quiescence (both brokers flushed), per delivered message, by tag:
//
//	t<tag>:<stored events>:<deleted events>:<1 if still listed in its mailbox>
//
// The oracle is schedule-independent: stored = 1 and deleted + live = 1.

func goid() int64 {
	var buf [64]byte
	n := runtime.Stack(buf[:], false)
	f := strings.Fields(string(buf[:n]))
	id, _ := strconv.ParseInt(f[1], 10, 64)
	return id
}

const (
	cNew = iota
	cRunning
	cParked
	cDone
)

type cparty struct {
	state   int
	release chan struct{}
	start   chan struct{}
}

type cctl struct {
	mu      sync.Mutex
	cond    *sync.Cond
	free    bool
	gids    map[int64]int
	parties []*cparty
}

func (c *cctl) handler(site, arg string) {
	g := goid()
	c.mu.Lock()
	p, ok := c.gids[g]
	if !ok || c.free {
		c.mu.Unlock()
		return
	}
	pt := c.parties[p]
	ch := make(chan struct{})
	pt.state, pt.release = cParked, ch
	c.cond.Broadcast()
	c.mu.Unlock()
	<-ch
}

func (c *cctl) waitNotRunning(p int, d time.Duration) bool {
	deadline := time.Now().Add(d)
	c.mu.Lock()
	defer c.mu.Unlock()
	for c.parties[p].state == cRunning {
		left := time.Until(deadline)
		if left <= 0 {
			return false
		}
		t := time.AfterFunc(left, func() { c.mu.Lock(); c.cond.Broadcast(); c.mu.Unlock() })
		c.cond.Wait()
		t.Stop()
	}
	return true
}

func concDelivery(mb string, tag, size int) *message.Delivery {
	subject, from, to, src := content(tag, size)
	return &message.Delivery{
		Meta: event.MessageMetadata{Mailbox: mb, From: &mail.Address{Address: from}, To: []*mail.Address{{Address: to}},
			Date: time.Unix(1600000000+int64(tag), 0), Subject: subject, Size: int64(len(src))},
		Reader: bytes.NewReader(src),
	}
}

// ExecConc runs one forced-schedule case.
func ExecConc(in []string) []string {
	if len(in) != 5 {
		return []string{"BADLINE"}
	}
	capN, maxkb := vh.AtoI(in[0]), vh.AtoI(in[1])
	host, log := newHost()
	params := map[string]string{}
	if maxkb > 0 {
		params["maxkb"] = strconv.Itoa(maxkb)
	}
	store, err := mem.New(config.Storage{Type: "memory", Params: params, MailboxMsgCap: capN}, host)
	if err != nil {
		return []string{"NEWERR"}
	}
	mbName := func(i string) string { return "mb" + i }
	var tmu sync.Mutex
	tagID := map[int]string{} // tag -> id
	tagMB := map[int]string{}
	ntags := 0
	add := func(mb string, size int) string {
		tmu.Lock()
		tag := ntags
		ntags++
		tagMB[tag] = mb
		tmu.Unlock()
		d := concDelivery(mb, tag, size)
		id, err := store.AddMessage(d)
		if err != nil {
			return "adderr"
		}
		tmu.Lock()
		tagID[tag] = id
		tmu.Unlock()
		ev := d.Meta
		ev.ID = id
		host.Events.AfterMessageStored.Emit(&ev) // what StoreManager.Deliver does after AddMessage
		return "ok"
	}
	run := func(o string) string {
		f := strings.Split(o[1:], ":")
		switch o[0] {
		case 'a':
			return add(mbName(f[0]), vh.AtoI(f[1]))
		case 'r':
			tmu.Lock()
			id, ok := tagID[vh.AtoI(f[1])]
			tmu.Unlock()
			if !ok {
				id = "no-such-id"
			}
			return errClass(store.RemoveMessage(mbName(f[0]), id))
		case 'p':
			return errClass(store.PurgeMessages(mbName(f[0])))
		}
		return "badop"
	}
	// prefix, sequentially and without hooks
	if in[2] != "-" {
		for _, o := range strings.Split(in[2], ",") {
			if r := run(o); r != "ok" {
				return []string{"PREFIXERR", r}
			}
		}
	}
	ops := strings.Split(in[3], ",")
	c := &cctl{gids: map[int64]int{}}
	c.cond = sync.NewCond(&c.mu)
	results := make([]string, len(ops))
	for range ops {
		c.parties = append(c.parties, &cparty{state: cNew, start: make(chan struct{})})
	}
	verifhook.Set(c.handler)
	defer verifhook.Set(nil)
	var wg sync.WaitGroup
	for i := range ops {
		wg.Add(1)
		go func(i int) {
			defer wg.Done()
			<-c.parties[i].start
			c.mu.Lock()
			c.gids[goid()] = i
			c.mu.Unlock()
			r := run(ops[i])
			c.mu.Lock()
			results[i] = r
			c.parties[i].state = cDone
			c.cond.Broadcast()
			c.mu.Unlock()
		}(i)
	}
	blocked := 0
	sched := in[4]
	if sched == "-" {
		sched = ""
	}
	for _, ch := range sched {
		p := int(ch - '0')
		if p < 0 || p >= len(ops) {
			continue
		}
		c.mu.Lock()
		pt := c.parties[p]
		switch pt.state {
		case cNew:
			pt.state = cRunning
			close(pt.start)
		case cParked:
			pt.state = cRunning
			close(pt.release)
		}
		c.mu.Unlock()
		if !c.waitNotRunning(p, 100*time.Millisecond) {
			blocked++
		}
	}
	// drain
	c.mu.Lock()
	c.free = true
	for _, pt := range c.parties {
		switch pt.state {
		case cNew:
			pt.state = cRunning
			close(pt.start)
		case cParked:
			pt.state = cRunning
			close(pt.release)
		}
	}
	c.mu.Unlock()
	done := make(chan struct{})
	go func() { wg.Wait(); close(done) }()
	select {
	case <-done:
	case <-time.After(20 * time.Second):
		return []string{"DEADLOCK"}
	}
	verifhook.Set(nil)
	del, sto, ok := log.flush(host)
	if !ok {
		return []string{"FLUSH-TIMEOUT"}
	}
	count := func(evs []event.MessageMetadata) map[string]int {
		m := map[string]int{}
		for _, e := range evs {
			m[e.Mailbox+"/"+e.Subject]++
		}
		return m
	}
	dc, sc := count(del), count(sto)
	live := map[string]bool{}
	mbs := map[string]bool{}
	for _, mb := range tagMB {
		mbs[mb] = true
	}
	for mb := range mbs {
		ms, _ := store.GetMessages(mb)
		for _, m := range ms {
			live[mb+"/"+m.Subject()] = true
		}
	}
	var tags []int
	for t := range tagMB {
		tags = append(tags, t)
	}
	sort.Ints(tags)
	out := []string{}
	for _, t := range tags {
		k := tagMB[t] + "/t" + strconv.Itoa(t)
		l := 0
		if live[k] {
			l = 1
		}
		out = append(out, fmt.Sprintf("t%d:%d:%d:%d", t, sc[k], dc[k], l))
		delete(dc, k)
		delete(sc, k)
	}
	for k, n := range dc { // events for something that was never delivered
		out = append(out, fmt.Sprintf("x%s:0:%d:0", vh.HS(k), n))
	}
	for k, n := range sc {
		out = append(out, fmt.Sprintf("x%s:%d:0:0", vh.HS(k), n))
	}
	_ = storage.ErrNotExist
	return out
}

// GenConc emits forced-schedule cases: a store filled close to its size limit, a "victim"
// operation (remove / purge / cap-evicting add) parked after each possible number of steps, a
// size-evicting delivery run against it, optionally a third operation; plus random schedules.
func GenConc(g *vh.Gen) {
	emit := func(capN, maxkb int, prefix, ops []string, sched string) {
		g.Emit("conc", vh.I(capN), vh.I(maxkb), strings.Join(prefix, ","), strings.Join(ops, ","), sched)
	}
	rep := func(c byte, n int) string { return strings.Repeat(string(c), n) }
	victims := [][]string{
		{"r0:0"},         // explicit delete of the oldest message
		{"p0"},           // purge of its mailbox
		{"a0:300"},       // delivery to the same mailbox (cap eviction when cap = 2)
		{"r0:1"},         // delete of a younger message
		{"r0:0", "r0:0"}, // two clients delete the same message
	}
	for vi, v := range victims {
		for _, capN := range []int{0, 2} {
			prefix := []string{"a0:400", "a0:400"}
			ops := append([]string{}, v...)
			ops = append(ops, "a1:400") // 800 accounted + 400 > 1024: the enforcer evicts the oldest
			last := byte('0' + len(ops) - 1)
			for j := 0; j <= g.N(7, 9); j++ {
				// victim runs j steps, the delivery runs to its end, then the victim
				emit(capN, 1, prefix, ops, rep('0', j)+rep(last, 12)+rep('0', 12))
				// and the other way round
				if vi < 3 && capN == 0 {
					emit(capN, 1, prefix, ops, rep(last, j)+rep('0', 12)+rep(last, 12))
				}
			}
		}
	}
	// two OVERLAPPING purges of one mailbox with a delivery to it between them: purge 1 is parked after
	// j steps (mem.wm.lock, mem.purge.swapped, mem.enfremove …), the delivery and purge 2 run to their
	// ends, purge 1 resumes — every message must still get exactly one deleted event
	for _, maxkb := range []int{0, 1} {
		for _, pre := range [][]string{{"a0:300"}, {"a0:300", "a0:200", "a0:250"}} {
			for j := 0; j <= g.N(6, 9); j++ {
				emit(0, maxkb, pre, []string{"p0", "a0:300", "p0"}, rep('0', j)+rep('1', 12)+rep('2', 12)+rep('0', 12))
				emit(0, maxkb, pre, []string{"p0", "a0:300", "p0", "a0:200"}, rep('0', j)+rep('1', 12)+rep('2', j)+rep('3', 12)+rep('0', 12)+rep('2', 12))
			}
		}
	}
	for i := 0; i < g.N(60, 3000); i++ {
		n := 2 + g.Intn(2)
		prefix := []string{}
		for k := 0; k < 2+g.Intn(3); k++ {
			prefix = append(prefix, fmt.Sprintf("a%d:%d", g.Intn(2), 250+50*g.Intn(5)))
		}
		ops := []string{}
		for k := 0; k < n; k++ {
			switch g.Intn(4) {
			case 0:
				ops = append(ops, fmt.Sprintf("r%d:%d", g.Intn(2), g.Intn(len(prefix))))
			case 1:
				ops = append(ops, fmt.Sprintf("p%d", g.Intn(2)))
			default:
				ops = append(ops, fmt.Sprintf("a%d:%d", g.Intn(2), 300+100*g.Intn(4)))
			}
		}
		var sb strings.Builder
		for k := 0; k < 6+g.Intn(20); k++ {
			sb.WriteByte(byte('0' + g.Intn(n)))
		}
		emit([]int{0, 1, 2}[g.Intn(3)], []int{1, 1, 2, 0}[g.Intn(4)], prefix, ops, sb.String())
	}
}

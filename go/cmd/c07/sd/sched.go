package sd

import (
	"fmt"
	"strings"
	"sync"
	"time"

	"github.com/inbucket/inbucket/v3/pkg/extension"
	"github.com/inbucket/inbucket/v3/pkg/extension/event"
	"verifharness/vh"
)

// Forced schedules of the asynchronous broker (C16 listener_serial):
//
//	sched <n> <b> <brokers>
//
// n events are emitted back to back on the AfterMessageStored broker (brokers=1) or alternately
// on the stored and deleted brokers (brokers=2, one listener function per broker); the listener's
// invocation for event number b does not return until a LATER invocation of the same listener
// has begun or 150 ms have passed. With a broker that serialises a listener the wait always
// times out; with one goroutine per event the later invocation begins at once.
// Output: ser=<0|1> (no two invocations of one listener overlapped), s=<event numbers the stored
// listener was invoked with, in order>, d=<the same for the deleted listener>: by
// delivery_is_emit_order each must be exactly the emitted sequence of its broker.

// GenSched emits the schedule cases.
func GenSched(g *vh.Gen) {
	for i := 0; i < g.N(12, 200); i++ {
		n := 2 + g.Intn(6)
		g.Emit("sched", vh.I(n), vh.I(g.Intn(n-1)), vh.I(1+g.Intn(2)))
	}
	// long bursts (queues of tens and hundreds of events behind the held invocation)
	for _, n := range []int{33, 64, 300, 1000} {
		g.Emit("sched", vh.I(n), vh.I(g.Intn(n-1)), vh.I(1+g.Intn(2)))
	}
}

// ExecSched runs one schedule case.
func ExecSched(in []string) []string {
	n, b, brokers := vh.AtoI(in[0]), vh.AtoI(in[1]), vh.AtoI(in[2])
	h := extension.NewHost()
	var mu sync.Mutex
	inside := map[int]int{} // listener -> running invocations
	seen := map[int][]int{} // listener -> event numbers in call order
	began := map[int]chan struct{}{0: make(chan struct{}, 64), 1: make(chan struct{}, 64)}
	serial := true
	var wg sync.WaitGroup
	wg.Add(n)
	mk := func(l int) func(event.MessageMetadata) {
		return func(m event.MessageMetadata) {
			num := int(m.Size)
			mu.Lock()
			inside[l]++
			if inside[l] > 1 {
				serial = false
			}
			seen[l] = append(seen[l], num)
			mu.Unlock()
			if num != b {
				select {
				case began[l] <- struct{}{}:
				default:
				}
			} else {
				select {
				case <-began[l]:
				case <-time.After(150 * time.Millisecond):
				}
			}
			mu.Lock()
			inside[l]--
			mu.Unlock()
			wg.Done()
		}
	}
	h.Events.AfterMessageStored.AddListener("verif", mk(0))
	h.Events.AfterMessageDeleted.AddListener("verif", mk(1))
	for i := 0; i < n; i++ {
		ev := event.MessageMetadata{Mailbox: "m", ID: fmt.Sprint(i), Size: int64(i)}
		// the blocking event and everything after it stay on one broker, so that "later
		// invocation of the same listener" exists
		if brokers == 2 && i < b && i%2 == 1 {
			h.Events.AfterMessageDeleted.Emit(&ev)
		} else {
			h.Events.AfterMessageStored.Emit(&ev)
		}
	}
	done := make(chan struct{})
	go func() { wg.Wait(); close(done) }()
	select {
	case <-done:
	case <-time.After(10 * time.Second):
		return []string{"TIMEOUT"}
	}
	mu.Lock()
	defer mu.Unlock()
	seq := func(l int) string {
		if len(seen[l]) == 0 {
			return "-"
		}
		p := make([]string, len(seen[l]))
		for i, n := range seen[l] {
			p[i] = vh.I(n)
		}
		return strings.Join(p, ",")
	}
	return []string{"ser=" + vh.B(serial), "s=" + seq(0), "d=" + seq(1)}
}

// sched2 <groups> <blocks>: events are emitted in bursts on the AfterMessageStored broker
// (groups = burst sizes, e.g. 1,2,2); the listener's invocation for every event number in
// <blocks> does not return until the emitter releases it. After every burst but the first the
// emitter releases the invocation that is currently held and waits until the listener is held
// again or has caught up. So bursts arrive while the listener is busy and while earlier bursts
// are still queued. Output as for sched: ser=…, s=<event numbers in invocation order>.
func GenSched2(g *vh.Gen) {
	cases := [][2]string{{"1,2,2", "0,1"}, {"1,3,2", "0,1"}, {"2,2,3", "1,2"}, {"1,2,2,2", "0,1,3"}, {"1,4,4", "0,2"}, {"3,3", "0"}}
	for _, c := range cases {
		g.Emit("sched2", c[0], c[1])
	}
	for i := 0; i < g.N(6, 300); i++ {
		ng := 2 + g.Intn(3)
		gs := make([]string, ng)
		total := 0
		for j := range gs {
			k := 1 + g.Intn(4)
			gs[j] = vh.I(k)
			total += k
		}
		bl := []string{"0"}
		for e := 1; e < total-1; e++ {
			if g.Chance(0.35) {
				bl = append(bl, vh.I(e))
			}
		}
		g.Emit("sched2", strings.Join(gs, ","), strings.Join(bl, ","))
	}
}

// ExecSched2 runs one burst schedule.
func ExecSched2(in []string) []string {
	blocks := map[int]bool{}
	for _, b := range strings.Split(in[1], ",") {
		blocks[vh.AtoI(b)] = true
	}
	h := extension.NewHost()
	var mu sync.Mutex
	cond := sync.NewCond(&mu)
	var seen []int
	inside := 0
	serial := true
	held := false
	var release chan struct{}
	h.Events.AfterMessageStored.AddListener("verif", func(m event.MessageMetadata) {
		num := int(m.Size)
		mu.Lock()
		inside++
		if inside > 1 {
			serial = false
		}
		seen = append(seen, num)
		var ch chan struct{}
		if blocks[num] {
			ch = make(chan struct{})
			release = ch
			held = true
		}
		cond.Broadcast()
		mu.Unlock()
		if ch != nil {
			<-ch
		}
		mu.Lock()
		inside--
		cond.Broadcast()
		mu.Unlock()
	})
	emitted := 0
	waitSettled := func() {
		deadline := time.Now().Add(2 * time.Second)
		mu.Lock()
		defer mu.Unlock()
		for !(held || (len(seen) >= emitted && inside == 0)) {
			left := time.Until(deadline)
			if left <= 0 {
				return
			}
			t := time.AfterFunc(left, func() { mu.Lock(); cond.Broadcast(); mu.Unlock() })
			cond.Wait()
			t.Stop()
		}
	}
	for gi, gs := range strings.Split(in[0], ",") {
		for k := 0; k < vh.AtoI(gs); k++ {
			ev := event.MessageMetadata{Mailbox: "m", ID: fmt.Sprint(emitted), Size: int64(emitted)}
			h.Events.AfterMessageStored.Emit(&ev)
			emitted++
		}
		if gi > 0 {
			mu.Lock()
			if held {
				held = false
				close(release)
			}
			mu.Unlock()
		}
		waitSettled()
	}
	// release everything that is still held, to the end
	for i := 0; i < 200; i++ {
		mu.Lock()
		if held {
			held = false
			close(release)
		}
		fin := len(seen) >= emitted && inside == 0
		mu.Unlock()
		if fin {
			break
		}
		time.Sleep(5 * time.Millisecond)
	}
	mu.Lock()
	defer mu.Unlock()
	p := make([]string, len(seen))
	for i, n := range seen {
		p[i] = vh.I(n)
	}
	s := strings.Join(p, ",")
	if s == "" {
		s = "-"
	}
	return []string{"ser=" + vh.B(serial), "s=" + s}
}

// slow <hold_ms> <events>: a listener that stays inside its FIRST invocation for hold_ms (longer than any
// plausible per-call time limit of a broker: 6 s in the quick tier) while <events>-1 further events are
// emitted behind it. It must not be entered again before that call has returned, and must then be handed
// the other events in emit order. Output as for sched2: ser=…, s=<event numbers in invocation order>.
func GenSlow(g *vh.Gen) {
	g.Emit("slow", "6000", "3")
	if g.Tier == "thorough" {
		g.Emit("slow", "12000", "5")
	}
}

// ExecSlow runs the slow-listener case.
func ExecSlow(in []string) []string {
	hold := time.Duration(vh.AtoI(in[0])) * time.Millisecond
	n := vh.AtoI(in[1])
	h := extension.NewHost()
	var mu sync.Mutex
	var seen []int
	inside := 0
	serial := true
	done := make(chan struct{}, n)
	h.Events.AfterMessageStored.AddListener("verif", func(m event.MessageMetadata) {
		num := int(m.Size)
		mu.Lock()
		inside++
		if inside > 1 {
			serial = false
		}
		seen = append(seen, num)
		mu.Unlock()
		if num == 0 {
			time.Sleep(hold)
		}
		mu.Lock()
		inside--
		mu.Unlock()
		done <- struct{}{}
	})
	for i := 0; i < n; i++ {
		ev := event.MessageMetadata{Mailbox: "m", ID: fmt.Sprint(i), Size: int64(i)}
		h.Events.AfterMessageStored.Emit(&ev)
	}
	deadline := time.After(hold + 5*time.Second)
	for i := 0; i < n; i++ {
		select {
		case <-done:
		case <-deadline:
			i = n
		}
	}
	mu.Lock()
	defer mu.Unlock()
	p := make([]string, len(seen))
	for i, x := range seen {
		p[i] = vh.I(x)
	}
	s := strings.Join(p, ",")
	if s == "" {
		s = "-"
	}
	return []string{"ser=" + vh.B(serial), "s=" + s}
}

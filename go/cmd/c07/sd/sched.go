package sd

import (
	"fmt"
	"sync"
	"time"

	"github.com/inbucket/inbucket/v3/pkg/extension"
	"github.com/inbucket/inbucket/v3/pkg/extension/event"
	"verifharness/vh"
)

// Forced schedules of the asynchronous broker (C16 listener_serial):
//
//	sched <n> <b> <brokers>
//
// n events are emitted back to back on the AfterMessageStored broker (brokers=1) or alternately
// on the stored and deleted brokers (brokers=2, one listener function per broker); the listener's
// invocation for event number b does not return until a LATER invocation of the same listener
// has begun or 150 ms have passed. With a broker that serialises a listener the wait always
// times out; with one goroutine per event the later invocation begins at once.
// Output: ser=<0|1> (no two invocations of one listener overlapped) ord=<0|1> (each listener
// saw its events in emit order) n=<number of invocations>.

// GenSched emits the schedule cases.
func GenSched(g *vh.Gen) {
	for i := 0; i < g.N(12, 200); i++ {
		n := 2 + g.Intn(6)
		g.Emit("sched", vh.I(n), vh.I(g.Intn(n-1)), vh.I(1+g.Intn(2)))
	}
}

// ExecSched runs one schedule case.
func ExecSched(in []string) []string {
	n, b, brokers := vh.AtoI(in[0]), vh.AtoI(in[1]), vh.AtoI(in[2])
	h := extension.NewHost()
	var mu sync.Mutex
	inside := map[int]int{} // listener -> running invocations
	seen := map[int][]int{} // listener -> event numbers in call order
	began := map[int]chan struct{}{0: make(chan struct{}, 64), 1: make(chan struct{}, 64)}
	serial := true
	var wg sync.WaitGroup
	wg.Add(n)
	mk := func(l int) func(event.MessageMetadata) {
		return func(m event.MessageMetadata) {
			num := int(m.Size)
			mu.Lock()
			inside[l]++
			if inside[l] > 1 {
				serial = false
			}
			seen[l] = append(seen[l], num)
			mu.Unlock()
			if num != b {
				select {
				case began[l] <- struct{}{}:
				default:
				}
			} else {
				select {
				case <-began[l]:
				case <-time.After(150 * time.Millisecond):
				}
			}
			mu.Lock()
			inside[l]--
			mu.Unlock()
			wg.Done()
		}
	}
	h.Events.AfterMessageStored.AddListener("verif", mk(0))
	h.Events.AfterMessageDeleted.AddListener("verif", mk(1))
	for i := 0; i < n; i++ {
		ev := event.MessageMetadata{Mailbox: "m", ID: fmt.Sprint(i), Size: int64(i)}
		// the blocking event and everything after it stay on one broker, so that "later
		// invocation of the same listener" exists
		if brokers == 2 && i < b && i%2 == 1 {
			h.Events.AfterMessageDeleted.Emit(&ev)
		} else {
			h.Events.AfterMessageStored.Emit(&ev)
		}
	}
	done := make(chan struct{})
	go func() { wg.Wait(); close(done) }()
	select {
	case <-done:
	case <-time.After(10 * time.Second):
		return []string{"TIMEOUT"}
	}
	mu.Lock()
	defer mu.Unlock()
	ordered := true
	count := 0
	for _, s := range seen {
		count += len(s)
		for i := 1; i < len(s); i++ {
			if s[i] < s[i-1] {
				ordered = false
			}
		}
	}
	return []string{"ser=" + vh.B(serial), "ord=" + vh.B(ordered), "n=" + vh.I(count)}
}

package sd

import "verifharness/vh"

// GenSched / ExecSched: forced schedules of the asynchronous broker (filled in below).
func GenSched(g *vh.Gen)            {}
func ExecSched(in []string) []string { return []string{"TODO"} }

package sd

import (
	"bufio"
	"bytes"
	"encoding/gob"
	"fmt"
	"io"
	"net/mail"
	"os"
	"path/filepath"
	"strconv"
	"strings"
	"time"

	"github.com/inbucket/inbucket/v3/pkg/config"
	"github.com/inbucket/inbucket/v3/pkg/extension/event"
	"github.com/inbucket/inbucket/v3/pkg/message"
	"github.com/inbucket/inbucket/v3/pkg/storage/file"
	"github.com/inbucket/inbucket/v3/pkg/stringutil"
	"verifharness/vh"
)

// collide <j> <wrap>
//
// Where fix 0010 lives: the file store's id generation when the candidate id is taken. The ids
// are (second, process-wide counter mod 10000); the driver learns the counter c from a probe
// delivery and then PLANTS, in the mailbox's index on disk (index.gob + <id>.raw, the store's own
// format), j messages carrying the ids the next j draws would produce — for the current second
// and the two following ones, so that the wall clock does not matter. With wrap=1 the counter is
// first advanced to just below 9999 so that the taken ids run across the wrap 9999 -> 0000.
// The next AddMessage must skip all of them (the hasID loop): FileStore.gen_loop predicts the
// counter of the id it returns.
//
// Output: c=<probe counter> ctr=<counter of the new id> fresh=<new id differs from every existing one>
//         intact=<every planted message still reads back its own content> n=<messages listed>.

const idLayout = "20060102T150405"

func ctrOf(id string) int {
	i := strings.LastIndex(id, "-")
	if i < 0 {
		return -1
	}
	n, err := strconv.Atoi(id[i+1:])
	if err != nil {
		return -1
	}
	return n
}

// GenCollide emits the collision cases.
func GenCollide(g *vh.Gen) {
	for _, j := range []int{0, 1, 2, 3, 7, 40, 200} {
		g.Emit("collide", vh.I(j), "0")
	}
	for i := 0; i < g.N(4, 60); i++ {
		g.Emit("collide", vh.I(1+g.Intn(12)), "0")
	}
	// across the counter wrap (costs up to 10 000 probe deliveries once per run)
	g.Emit("collide", "6", "1")
	if g.Tier == "thorough" {
		g.Emit("collide", "12", "1")
		g.Emit("collide", "40", "1")
	}
}

func collideDelivery(mb string, n int) *message.Delivery {
	body := fmt.Sprintf("Subject: c%d\r\n\r\ncollide body %d\r\n", n, n)
	return &message.Delivery{
		Meta: event.MessageMetadata{Mailbox: mb, From: &mail.Address{Address: "a@example.com"}, To: []*mail.Address{{Address: "b@example.com"}},
			Date: time.Unix(1600000000+int64(n), 0), Subject: fmt.Sprintf("c%d", n), Size: int64(len(body))},
		Reader: strings.NewReader(body),
	}
}

// ExecCollide runs one collision case.
func ExecCollide(in []string) []string {
	j, wrap := vh.AtoI(in[0]), in[1] == "1"
	base := os.Getenv("VERIF_WORKDIR")
	if base == "" {
		base = os.TempDir()
	}
	dirSeq++
	dir := fmt.Sprintf("%s/fsc-%d-%d", base, os.Getpid(), dirSeq)
	_ = os.RemoveAll(dir)
	defer os.RemoveAll(dir)
	if err := os.MkdirAll(dir, 0o770); err != nil {
		return []string{"MKDIRERR"}
	}
	host, _ := newHost()
	store, err := file.New(config.Storage{Type: "file", Params: map[string]string{"path": dir}}, host)
	if err != nil {
		return []string{"NEWERR"}
	}
	nprobe := 0
	probe := func() int {
		id, err := store.AddMessage(collideDelivery("probe", 0))
		if err != nil {
			return -1
		}
		if nprobe++; nprobe%64 == 0 {
			_ = store.PurgeMessages("probe")
		}
		return ctrOf(id)
	}
	if _, err := store.AddMessage(collideDelivery("box", 1)); err != nil {
		return []string{"ADDERR"}
	}
	c := probe()
	if c < 0 {
		return []string{"PROBEERR"}
	}
	if wrap {
		// advance the process-wide counter so that c+1 .. c+j straddles 9999 -> 0000
		target := 9999 - j/2
		for c != target-1 {
			if c = probe(); c < 0 {
				return []string{"PROBEERR"}
			}
		}
	}
	// plant: decode the live index, append the colliding entries, write it back with their bodies
	hash := stringutil.HashMailboxName("box")
	mbdir := filepath.Join(dir, "mail", hash[0:3], hash[0:6], hash)
	idx := filepath.Join(mbdir, "index.gob")
	f, err := os.Open(idx)
	if err != nil {
		return []string{"INDEXERR"}
	}
	dec := gob.NewDecoder(bufio.NewReader(f))
	name := ""
	if err := dec.Decode(&name); err != nil {
		f.Close()
		return []string{"DECODEERR"}
	}
	var msgs []*file.Message
	for {
		m := &file.Message{}
		if err := dec.Decode(m); err != nil {
			if err == io.EOF {
				break
			}
			f.Close()
			return []string{"DECODEERR2"}
		}
		msgs = append(msgs, m)
	}
	f.Close()
	existing := map[string]bool{}
	for _, m := range msgs {
		existing[m.Fid] = true
	}
	planted := map[string]string{}
	now := time.Now()
	for ds := 0; ds <= 2; ds++ {
		prefix := now.Add(time.Duration(ds) * time.Second).Format(idLayout)
		for k := 1; k <= j; k++ {
			id := fmt.Sprintf("%s-%04d", prefix, (c+k)%10000)
			content := "Subject: planted\r\n\r\nplanted " + id + "\r\n"
			planted[id] = content
			existing[id] = true
			if err := os.WriteFile(filepath.Join(mbdir, id+".raw"), []byte(content), 0o660); err != nil {
				return []string{"PLANTERR"}
			}
			msgs = append(msgs, &file.Message{Fid: id, Fdate: now, Ffrom: &mail.Address{Address: "p@example.com"},
				Fto: []*mail.Address{{Address: "q@example.com"}}, Fsubject: "planted", Fsize: int64(len(content))})
		}
	}
	var buf bytes.Buffer
	enc := gob.NewEncoder(&buf)
	if err := enc.Encode(name); err != nil {
		return []string{"ENCODEERR"}
	}
	for _, m := range msgs {
		if err := enc.Encode(m); err != nil {
			return []string{"ENCODEERR2"}
		}
	}
	if err := os.WriteFile(idx, buf.Bytes(), 0o660); err != nil {
		return []string{"WRITEERR"}
	}
	// the delivery under test
	id, err := store.AddMessage(collideDelivery("box", 2))
	if err != nil {
		return []string{"ADDERR2", vh.HS(err.Error())}
	}
	if time.Since(now) > 2500*time.Millisecond {
		return []string{"TOO-SLOW"}
	}
	fresh := !existing[id]
	intact := true
	ms, err := store.GetMessages("box")
	if err != nil {
		return []string{"LISTERR"}
	}
	seen := map[string]int{}
	for _, m := range ms {
		seen[m.ID()]++
		if want, ok := planted[m.ID()]; ok {
			rc, e := m.Source()
			if e != nil {
				intact = false
				continue
			}
			got, _ := io.ReadAll(rc)
			rc.Close()
			if string(got) != want {
				intact = false
			}
		}
	}
	for _, n := range seen {
		if n != 1 {
			fresh = false
		}
	}
	return []string{"c=" + vh.I(c), "ctr=" + vh.I(ctrOf(id)), "fresh=" + vh.B(fresh), "intact=" + vh.B(intact), "n=" + vh.I(len(ms))}
}

package sd

import (
	"fmt"
	"net/mail"
	"os"
	"sort"
	"strings"
	"time"

	"github.com/inbucket/inbucket/v3/pkg/config"
	"github.com/inbucket/inbucket/v3/pkg/extension/event"
	"github.com/inbucket/inbucket/v3/pkg/message"
	"github.com/inbucket/inbucket/v3/pkg/policy"
	"github.com/inbucket/inbucket/v3/pkg/storage"
	"github.com/inbucket/inbucket/v3/pkg/storage/file"
	"github.com/inbucket/inbucket/v3/pkg/storage/mem"
	"verifharness/vh"
)

// cdeliver <mem|file>
//
// Two CONCURRENT deliveries to one mailbox with cap 1, through the real StoreManager.Deliver
// (finding K-C16-concurrent-stored-after-deleted; run from the corpus, never generated):
// delivery A's Store.AddMessage(m1) has returned — a wrapper around the store holds A right there,
// i.e. before Deliver emits stored(m1) —, delivery B stores m2, the cap evicts m1 and the store
// emits deleted(m1) from inside B's AddMessage; only then A goes on and emits stored(m1).
// No oversize message, and the order is already wrong at EMISSION (one broker would not help).
//
// Output: p1=<events seen while A is held, after B has finished and both brokers were flushed>
//         p2=<events seen after A was released>, each sorted; S<n>/D<n> = stored/deleted of message n.

type holdStore struct {
	storage.Store
	subject string
	entered chan struct{}
	release chan struct{}
}

func (h *holdStore) AddMessage(m storage.Message) (string, error) {
	id, err := h.Store.AddMessage(m)
	if m.Subject() == h.subject {
		h.entered <- struct{}{}
		<-h.release
	}
	return id, err
}

// ExecCDeliver runs the witness.
func ExecCDeliver(in []string) []string {
	host, log := newHost()
	var inner storage.Store
	var err error
	if len(in) > 0 && in[0] == "file" {
		base := os.Getenv("VERIF_WORKDIR")
		if base == "" {
			base = os.TempDir()
		}
		dirSeq++
		dir := fmt.Sprintf("%s/fscd-%d-%d", base, os.Getpid(), dirSeq)
		_ = os.RemoveAll(dir)
		defer os.RemoveAll(dir)
		if err = os.MkdirAll(dir, 0o770); err == nil {
			inner, err = file.New(config.Storage{Type: "file", Params: map[string]string{"path": dir}, MailboxMsgCap: 1}, host)
		}
	} else {
		inner, err = mem.New(config.Storage{Type: "memory", Params: map[string]string{}, MailboxMsgCap: 1}, host)
	}
	if err != nil {
		return []string{"NEWERR"}
	}
	hs := &holdStore{Store: inner, subject: "m1", entered: make(chan struct{}, 1), release: make(chan struct{})}
	conf := &config.Root{MailboxNaming: config.LocalNaming}
	conf.SMTP.DefaultStore = true
	mgr := &message.StoreManager{AddrPolicy: &policy.Addressing{Config: conf}, Store: hs, ExtHost: host}
	deliver := func(n int) error {
		src := fmt.Sprintf("Subject: m%d\r\nFrom: a@example.com\r\nTo: box@example.com\r\n\r\nbody %d\r\n", n, n)
		rcpt, e := mgr.AddrPolicy.NewRecipient("box@example.com")
		if e != nil {
			return e
		}
		return mgr.Deliver(&policy.Origin{Address: mail.Address{Address: "a@example.com"}}, []*policy.Recipient{rcpt}, "from verif", []byte(src))
	}
	phase := func() (string, bool) {
		del, sto, ok := log.flush(host)
		var evs []string
		name := func(k string, m event.MessageMetadata) string { return k + strings.TrimPrefix(m.Subject, "m") }
		for _, m := range del {
			evs = append(evs, name("D", m))
		}
		for _, m := range sto {
			evs = append(evs, name("S", m))
		}
		sort.Strings(evs)
		if len(evs) == 0 {
			return "-", ok
		}
		return strings.Join(evs, ","), ok
	}
	doneA := make(chan error, 1)
	go func() { doneA <- deliver(1) }()
	select {
	case <-hs.entered:
	case <-time.After(5 * time.Second):
		return []string{"A-NOT-HELD"}
	}
	if err := deliver(2); err != nil {
		return []string{"B-ERR", vh.HS(err.Error())}
	}
	p1, ok1 := phase()
	close(hs.release)
	select {
	case <-doneA:
	case <-time.After(5 * time.Second):
		return []string{"A-STUCK"}
	}
	p2, ok2 := phase()
	if !ok1 || !ok2 {
		return []string{"FLUSH-TIMEOUT"}
	}
	return []string{"p1=" + p1, "p2=" + p2}
}

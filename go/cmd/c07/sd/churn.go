package sd

import (
	"fmt"
	"sync"
	"sync/atomic"
	"time"

	"github.com/inbucket/inbucket/v3/pkg/extension"
	"github.com/inbucket/inbucket/v3/pkg/extension/event"
	"verifharness/vh"
)

// churn <permanent> <probes> <events> <rounds>
//
// Listener registration against Emit (C16 emit_reaches_every_stable_listener): <probes> short-lived
// listeners are registered FIRST on the AfterMessageDeleted broker, then <permanent> recording
// listeners. One goroutine emits <events> events back to back; another removes the probes one
// after the other (and re-registers them, which appends them at the end) while the emits are
// going on. Whatever the probes do, every permanent listener must be handed every event exactly
// once. Repeated for <rounds> fresh hosts; bounded to about 2.5 s.
// Output: miss=<(listener,event) pairs never delivered> dup=<pairs delivered more than once>
//         n=<pairs expected>.

// GenChurn emits the registration-churn cases.
func GenChurn(g *vh.Gen) {
	g.Emit("churn", "48", "8", "400", vh.I(g.N(60, 600)))
	g.Emit("churn", "16", "12", "600", vh.I(g.N(60, 600)))
}

// ExecChurn runs one case.
func ExecChurn(in []string) []string {
	K, P, N, rounds := vh.AtoI(in[0]), vh.AtoI(in[1]), vh.AtoI(in[2]), vh.AtoI(in[3])
	deadline := time.Now().Add(1250 * time.Millisecond)
	miss, dup, expected := 0, 0, 0
	for r := 0; r < rounds && time.Now().Before(deadline); r++ {
		h := extension.NewHost()
		b := &h.Events.AfterMessageDeleted
		for p := 0; p < P; p++ {
			b.AddListener(fmt.Sprintf("probe-%d", p), func(event.MessageMetadata) {})
		}
		counts := make([][]int32, K)
		var total int64
		for i := 0; i < K; i++ {
			i := i
			counts[i] = make([]int32, N)
			b.AddListener(fmt.Sprintf("audit-%02d", i), func(m event.MessageMetadata) {
				atomic.AddInt32(&counts[i][int(m.Size)], 1)
				atomic.AddInt64(&total, 1)
			})
		}
		var emitted int64
		var wg sync.WaitGroup
		wg.Add(2)
		go func() {
			defer wg.Done()
			for e := 0; e < N; e++ {
				ev := event.MessageMetadata{Mailbox: "m", ID: fmt.Sprint(e), Size: int64(e)}
				b.Emit(&ev)
				atomic.AddInt64(&emitted, 1)
			}
		}()
		go func() {
			defer wg.Done()
			for p := 0; p < P; p++ {
				// spread the removals over the emits
				for atomic.LoadInt64(&emitted) < int64((p+1)*N/(P+2)) {
				}
				name := fmt.Sprintf("probe-%d", p)
				b.RemoveListener(name)
				b.AddListener(name, func(event.MessageMetadata) {})
			}
		}()
		wg.Wait()
		want := int64(K) * int64(N)
		for i := 0; i < 400 && atomic.LoadInt64(&total) < want; i++ {
			time.Sleep(time.Millisecond)
		}
		time.Sleep(2 * time.Millisecond)
		for i := 0; i < K; i++ {
			for e := 0; e < N; e++ {
				switch c := atomic.LoadInt32(&counts[i][e]); {
				case c == 0:
					miss++
				case c > 1:
					dup++
				}
			}
		}
		expected += K * N
	}
	_ = expected
	return []string{"miss=" + vh.I(miss), "dup=" + vh.I(dup)}
}

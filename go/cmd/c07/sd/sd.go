// Package sd is the store-history driver shared by C07, C08 and C16.
//
// One input line is one operation history on one fresh store:
//
//	<mem|file> <mode> <cap> <maxkb> <names> <ops>
//
// mode  "direct": AddMessage is called on the store and the driver emits the stored event
//       as StoreManager.Deliver would; "deliver": the real StoreManager.Deliver is used.
// names comma-separated hex mailbox names; ops refer to them by index.
// ops   comma-separated: a<mb>:<date>:<size>  g<mb>:<h>  l<mb>  s<mb>:<h>  r<mb>:<h>  p<mb>  v
//       with <h> = k<n> (id returned by the n-th add to this mailbox, n=0,1,..) | l ("latest") | b (bogus literal).
//
// Output: one token per operation (see obsToken), messages named by handle number, never by
// id or wall-clock time. After every operation the event brokers are flushed (a sentinel
// event travels through each per-listener FIFO), so the events of an operation are complete
// and attributed to it deterministically.
package sd

import (
	"bytes"
	"crypto/sha1"
	"encoding/hex"
	"fmt"
	"io"
	"net/mail"
	"os"
	"sort"
	"strconv"
	"strings"
	"sync"
	"time"

	"github.com/inbucket/inbucket/v3/pkg/config"
	"github.com/inbucket/inbucket/v3/pkg/extension"
	"github.com/inbucket/inbucket/v3/pkg/extension/event"
	"github.com/inbucket/inbucket/v3/pkg/message"
	"github.com/inbucket/inbucket/v3/pkg/policy"
	"github.com/inbucket/inbucket/v3/pkg/storage"
	"github.com/inbucket/inbucket/v3/pkg/storage/file"
	"github.com/inbucket/inbucket/v3/pkg/storage/mem"
	"github.com/rs/zerolog"
	"verifharness/vh"
)

func init() { zerolog.SetGlobalLevel(zerolog.Disabled) }

const flushName = "\x00verif-flush"

// ---------------------------------------------------------------- event capture

type evlog struct {
	mu      sync.Mutex
	deleted []event.MessageMetadata
	stored  []event.MessageMetadata
	flushD  chan struct{}
	flushS  chan struct{}
}

func newHost() (*extension.Host, *evlog) {
	h := extension.NewHost()
	l := &evlog{flushD: make(chan struct{}, 16), flushS: make(chan struct{}, 16)}
	h.Events.AfterMessageDeleted.AddListener("verif", func(m event.MessageMetadata) {
		if m.Mailbox == flushName {
			l.flushD <- struct{}{}
			return
		}
		l.mu.Lock()
		l.deleted = append(l.deleted, m)
		l.mu.Unlock()
	})
	h.Events.AfterMessageStored.AddListener("verif", func(m event.MessageMetadata) {
		if m.Mailbox == flushName {
			l.flushS <- struct{}{}
			return
		}
		l.mu.Lock()
		l.stored = append(l.stored, m)
		l.mu.Unlock()
	})
	return h, l
}

// flush waits until every event emitted so far has been handed to the listeners.
func (l *evlog) flush(h *extension.Host) (del, sto []event.MessageMetadata, ok bool) {
	s := event.MessageMetadata{Mailbox: flushName}
	h.Events.AfterMessageDeleted.Emit(&s)
	h.Events.AfterMessageStored.Emit(&s)
	ok = true
	for _, c := range []chan struct{}{l.flushD, l.flushS} {
		select {
		case <-c:
		case <-time.After(20 * time.Second):
			ok = false
		}
	}
	l.mu.Lock()
	del, sto = l.deleted, l.stored
	l.deleted, l.stored = nil, nil
	l.mu.Unlock()
	return
}

// ---------------------------------------------------------------- content

type written struct {
	mb      int
	date    int64
	size    int
	subject string
	from    string
	to      string
	body    []byte // what must read back
	// mode direct@meta: the full metadata that was handed to AddMessage (nil meta: the plain fields above)
	meta *oddMeta
}

// content builds the source of message number tag with exactly size bytes where possible
// (a parseable header block followed by padding).
func content(tag, size int) (subject, from, to string, src []byte) {
	subject = fmt.Sprintf("t%d", tag)
	from = fmt.Sprintf("from%d@example.com", tag)
	to = fmt.Sprintf("to%d@example.org", tag)
	head := fmt.Sprintf("Subject: %s\r\nFrom: %s\r\nTo: %s\r\n\r\n", subject, from, to)
	if size < len(head) {
		// too small for a header block (direct mode only): exactly size bytes derived from the tag
		pat := []byte(fmt.Sprintf("<%d>", tag))
		src = make([]byte, size)
		for i := range src {
			src[i] = pat[i%len(pat)]
		}
		return
	}
	// exactly size bytes: the header block, then lines of a tag-dependent pattern
	src = make([]byte, size)
	n := copy(src, head)
	for i := 0; n < size; i++ {
		if i%64 == 63 && n+1 < size {
			src[n], src[n+1] = '\r', '\n'
			n += 2
		} else {
			src[n] = byte('a' + (tag+i)%26)
			n++
		}
	}
	return
}

// ---------------------------------------------------------------- one history

type runner struct {
	store storage.Store
	host  *extension.Host
	log   *evlog
	mgr   *message.StoreManager
	names []string
	nameI map[string]int
	// handles
	ids    [][]string       // per mailbox: ids returned by the adds, in order
	handle []map[string]int // per mailbox: id -> latest handle number
	wr     [][]written      // per mailbox, per handle
	mode   string
	nadds  int
	held   []heldList
	dir    string // file store: the path, for re-opening with another cap
	metaMode bool
	target string // deliver mode: mailbox the BeforeMessageStored listener routes to
}

// resolve maps a handle to the id string handed to the store. A decorated spelling (z<n>.<v>) is judged "does not
// exist" by the model, so it must never BE an id the store issued: on the memory store ids are small numbers and a
// doubled or zero-extended id can be one ("1"+"1" = "11", the eleventh message) - such a candidate is replaced.
func (r *runner) resolve(mb int, h string) string {
	c := r.resolve0(mb, h)
	if strings.HasPrefix(h, "z") && mb < len(r.ids) {
		for _, id := range r.ids[mb] {
			if id == c {
				return "no-such-id"
			}
		}
	}
	return c
}

func (r *runner) resolve0(mb int, h string) string {
	switch {
	case h == "l":
		return "latest"
	case h == "b":
		return "no-such-id"
	case strings.HasPrefix(h, "z"):
		// z<n>.<v>: a DIFFERENT spelling of the id the n-th add returned (leading zeros, sign, blanks,
		// letter case): it is not the id of any message, both stores must say so
		f := strings.Split(h[1:], ".")
		n := vh.AtoI(f[0])
		if n < len(r.ids[mb]) && len(f) == 2 {
			id := r.ids[mb][n]
			switch f[1] {
			case "0":
				return "0" + id
			case "1":
				return "00" + id
			case "2":
				return "+" + id
			case "3":
				return " " + id
			case "4":
				return id + " "
			case "5":
				if l := strings.ToLower(id); l != id {
					return l
				}
				return id + ".0"
			// decorated spellings: path decorations, case, control characters, doubling
			case "6":
				return "x/" + id
			case "7":
				return "./" + id
			case "8":
				return id + "/"
			case "9":
				return "../" + id
			case "10":
				return id + "/."
			case "11":
				if u := strings.ToUpper(id); u != id {
					return u
				}
				return id + "x"
			case "12":
				return id + "\x00"
			case "13":
				return id + "\n"
			case "14":
				return id + id
			case "15":
				return "x/latest"
			case "16":
				return "\t" + id
			case "17":
				return id + "/../" + id
			}
		}
		return "no-such-id"
	case strings.HasPrefix(h, "k"):
		n := vh.AtoI(h[1:])
		if n < len(r.ids[mb]) {
			return r.ids[mb][n]
		}
	}
	return "no-such-id"
}

func addrStr(a *mail.Address) string {
	if a == nil {
		return "<nil>"
	}
	return a.Address
}

// view renders a message by handle: <k>.<date>.<tag>.<size>.<seen>; tag X<...> when what reads
// back is not what the add with that handle wrote.
func (r *runner) view(mb int, m storage.Message) string {
	if m == nil {
		return "NIL"
	}
	k, ok := r.handle[mb][m.ID()]
	if !ok {
		return "?" + hex.EncodeToString([]byte(m.ID()))
	}
	w := r.wr[mb][k]
	tag := w.subject[1:]
	bad := ""
	if m.Mailbox() != r.names[mb] {
		bad += "m"
	}
	if w.meta != nil {
		bad += w.meta.diff(m)
	} else {
		if m.Subject() != w.subject && r.mode == "direct" {
			bad += "s"
		}
		if r.mode == "direct" && (addrStr(m.From()) != w.from || len(m.To()) != 1 || addrStr(m.To()[0]) != w.to) {
			bad += "a"
		}
	}
	rc, err := m.Source()
	if err != nil {
		bad += "o"
	} else {
		got, _ := io.ReadAll(rc)
		rc.Close()
		if !bytes.Equal(got, w.body) {
			bad += "b"
		}
	}
	if bad != "" {
		tag = "X" + bad + tag
	}
	date := m.Date().Unix()
	if r.mode == "deliver" {
		// Deliver stamps the message itself; accept a date between the call and now.
		if d := m.Date().Unix(); d >= w.date-1 && d <= time.Now().Unix()+1 {
			date = 0
		}
	}
	seen := "0"
	if m.Seen() {
		seen = "1"
	}
	return fmt.Sprintf("%d.%d.%s.%d.%s", k, date, tag, m.Size(), seen)
}

func (r *runner) views(mb int, ms []storage.Message) string {
	v := make([]string, len(ms))
	for i, m := range ms {
		v[i] = r.view(mb, m)
	}
	return strings.Join(v, ",")
}

func errClass(err error) string {
	switch err {
	case nil:
		return "ok"
	case storage.ErrNotExist:
		return "N"
	}
	return "E" + hex.EncodeToString([]byte(err.Error()))
}

func (r *runner) evTokens(sortDeleted bool) string {
	del, sto, ok := r.log.flush(r.host)
	var out []string
	if !ok {
		out = append(out, "/FLUSH-TIMEOUT")
	}
	conv := func(kind string, m event.MessageMetadata) string {
		mb, okm := r.nameI[m.Mailbox]
		if !okm {
			return "/" + kind + "?" + hex.EncodeToString([]byte(m.Mailbox))
		}
		k, okk := r.handle[mb][m.ID]
		if !okk {
			return fmt.Sprintf("/%s%d.?%s", kind, mb, hex.EncodeToString([]byte(m.ID)))
		}
		return fmt.Sprintf("/%s%d.%d", kind, mb, k)
	}
	var ds []string
	for _, m := range del {
		ds = append(ds, conv("D", m))
	}
	if sortDeleted {
		// map iteration order of the purge: compare as a set (numeric order of handle numbers)
		num := func(t string) int {
			if i := strings.LastIndex(t, "."); i >= 0 {
				if n, err := strconv.Atoi(t[i+1:]); err == nil {
					return n
				}
			}
			return 1 << 30
		}
		sort.SliceStable(ds, func(i, j int) bool { return num(ds[i]) < num(ds[j]) })
	}
	out = append(out, ds...)
	for _, m := range sto {
		out = append(out, conv("S", m))
	}
	return strings.Join(out, "")
}

func (r *runner) add(mb int, date int64, size int) string {
	tag := r.nadds
	r.nadds++
	subject, from, to, src := content(tag, size)
	k := len(r.ids[mb])
	var id string
	var err error
	w := written{mb: mb, date: date, size: len(src), subject: subject, from: from, to: to, body: src}
	if r.mode == "deliver" {
		// The real delivery path: StoreManager.Deliver -> AddMessage -> AfterMessageStored.
		// Deliver prepends a Return-Path and a Received line; <size> is the size of what is
		// stored, so the source handed to Deliver is shorter by their (fixed) length.
		recvd := "from verif"
		stamp := time.Now().UTC().Format("Mon, 02 Jan 2006 15:04:05 -0700 (MST)")
		pre := len(fmt.Sprintf("Return-Path: <%s>\r\n", from)) + len(fmt.Sprintf("%s  for <%s>; %s\r\n", recvd, r.names[mb], stamp))
		subject, from, to, src = content(tag, size-pre)
		w = written{mb: mb, date: time.Now().Unix(), size: len(src) + pre, subject: subject, from: from, to: to, body: src}
		origin := &policy.Origin{Address: mail.Address{Address: from}}
		rcpt, rerr := r.mgr.AddrPolicy.NewRecipient("rcpt@example.net")
		if rerr != nil {
			return "A" + strconv.Itoa(k) + ":Erecipient"
		}
		// the mailbox is chosen by a BeforeMessageStored listener (any name can be a target)
		r.target = r.names[mb]
		err = r.mgr.Deliver(origin, []*policy.Recipient{rcpt}, recvd, src)
		if err == nil {
			// the id is only visible through the stored event
			del, sto, ok := r.log.flush(r.host)
			r.log.mu.Lock()
			r.log.deleted = append(del, r.log.deleted...)
			r.log.stored = append(sto, r.log.stored...)
			r.log.mu.Unlock()
			if !ok || len(sto) == 0 {
				return "A" + strconv.Itoa(k) + ":Enostoredevent"
			}
			id = sto[len(sto)-1].ID
		}
	} else {
		d := &message.Delivery{
			Meta: event.MessageMetadata{
				Mailbox: r.names[mb],
				From:    &mail.Address{Address: from},
				To:      []*mail.Address{{Address: to}},
				Date:    time.Unix(date, 0),
				Subject: subject,
				Size:    int64(len(src)),
			},
			Reader: bytes.NewReader(src),
		}
		if r.metaMode {
			// long and odd metadata, a function of the tag (see meta.go); what is read back later is
			// compared with it field by field
			om := makeOddMeta(tag, date)
			w.meta = om
			d.Meta.Subject, d.Meta.From, d.Meta.To, d.Meta.Date = om.subject, om.from, om.to, om.date
		}
		id, err = r.store.AddMessage(d)
		if err == nil {
			ev := d.Meta
			ev.ID = id
			r.host.Events.AfterMessageStored.Emit(&ev)
		}
	}
	if err != nil {
		return "A" + strconv.Itoa(k) + ":" + errClass(err)
	}
	r.ids[mb] = append(r.ids[mb], id)
	r.handle[mb][id] = k
	r.wr[mb] = append(r.wr[mb], w)
	// GetMessage of the id just returned
	m, gerr := r.store.GetMessage(r.names[mb], id)
	back := ""
	if gerr != nil {
		back = errClass(gerr)
	} else {
		if r.mode == "deliver" && m != nil {
			// what Deliver stored: its two header lines + src
			if rc, e := m.Source(); e == nil {
				got, _ := io.ReadAll(rc)
				rc.Close()
				if bytes.HasSuffix(got, src) && bytes.HasPrefix(got, []byte("Return-Path: <"+from+">\r\n")) {
					r.wr[mb][k].body = got
					r.wr[mb][k].size = len(got)
				}
			}
		}
		back = r.view(mb, m)
	}
	return "A" + strconv.Itoa(k) + ":" + back
}

func (r *runner) op(o string) string {
	kind := o[0]
	rest := strings.Split(o[1:], ":")
	mb := 0
	if kind != 'v' && kind != 'w' && kind != 'c' {
		mb = vh.AtoI(rest[0])
	}
	var tok string
	switch kind {
	case 'a':
		date, _ := strconv.ParseInt(rest[1], 10, 64)
		tok = r.add(mb, date, vh.AtoI(rest[2]))
	case 'g':
		m, err := r.store.GetMessage(r.names[mb], r.resolve(mb, rest[1]))
		if err != nil {
			tok = "G" + errClass(err)
		} else {
			tok = "G" + r.view(mb, m)
		}
	case 'l':
		ms, err := r.store.GetMessages(r.names[mb])
		if err != nil {
			tok = "L" + errClass(err)
		} else {
			tok = "L" + r.views(mb, ms)
		}
	case 's':
		tok = "U" + errClass(r.store.MarkSeen(r.names[mb], r.resolve(mb, rest[1])))
	case 'r':
		tok = "U" + errClass(r.store.RemoveMessage(r.names[mb], r.resolve(mb, rest[1])))
	case 'p':
		tok = "U" + errClass(r.store.PurgeMessages(r.names[mb]))
	case 'v':
		// The visitor RETAINS what it is handed; everything (Mailbox, ID, Size, Seen, full Source) is read
		// only after VisitMailboxes has returned, as a caller that collects messages does.
		var kept [][]storage.Message
		err := r.store.VisitMailboxes(func(ms []storage.Message) bool {
			if len(ms) > 0 {
				kept = append(kept, ms)
			}
			return true
		})
		groups := map[int]string{}
		extra := ""
		for _, ms := range kept {
			i, ok := r.nameI[ms[0].Mailbox()]
			if !ok {
				extra += ";?" + hex.EncodeToString([]byte(ms[0].Mailbox()))
				continue
			}
			if _, dup := groups[i]; dup {
				extra += ";dup" + strconv.Itoa(i)
			}
			groups[i] = r.views(i, ms)
		}
		var idx []int
		for i := range groups {
			idx = append(idx, i)
		}
		sort.Ints(idx)
		var gs []string
		for _, i := range idx {
			gs = append(gs, strconv.Itoa(i)+"="+groups[i])
		}
		tok = "V" + strings.Join(gs, ";") + extra
		if err != nil {
			tok += ";" + errClass(err)
		}
	case 'h':
		// GetMessages whose result is HELD by the caller (and printed like a listing now); the trailing
		// operation c reads all held listings again after everything that happened since
		ms, err := r.store.GetMessages(r.names[mb])
		if err != nil {
			tok = "L" + errClass(err)
		} else {
			tok = "L" + r.views(mb, ms)
			r.held = append(r.held, heldList{mb, ms})
		}
	case 'c':
		return r.checkHeld()
	case 'o':
		// o<cap>: the file store is re-opened on the same path with another mailbox cap (what a restart
		// with a changed INBUCKET_STORAGE_MAILBOXMSGCAP does); same extension host
		if r.dir == "" {
			return "BADOP-o-on-memory-store"
		}
		st, err := file.New(config.Storage{Type: "file", Params: map[string]string{"path": r.dir}, MailboxMsgCap: mb}, r.host)
		if err != nil {
			return "OE" + hex.EncodeToString([]byte(err.Error()))
		}
		r.store = st
		r.mgr.Store = st
		return "O" + r.evTokens(false)
	case 'w':
		return r.visitStop(vh.AtoI(rest[0]), len(rest) > 1 && rest[1] == "1")
	default:
		tok = "BADOP"
	}
	return tok + r.evTokens(kind == 'p')
}

type heldList struct {
	mb int
	ms []storage.Message
}

// checkHeld is the trailing operation c: every listing handed out by an h operation is read again NOW,
// after all later operations (on other mailboxes and on its own): per message
// <mailbox index from Mailbox()>.<handle>.<Size()>.<content>, content = the tag if the message is still
// in its mailbox and Source() yields exactly what was written, X if it is there but reads back
// differently, - if it has left its mailbox since (the file store has deleted its body; not read).
// The seen flag is not printed: the memory store hands out its live message objects, a later MarkSeen
// shows through (not claimed either way).
func (r *runner) checkHeld() string {
	var lists []string
	for _, h := range r.held {
		var toks []string
		for _, m := range h.ms {
			mbi, ok := r.nameI[m.Mailbox()]
			if !ok {
				toks = append(toks, "?"+hex.EncodeToString([]byte(m.Mailbox())))
				continue
			}
			k, okk := r.handle[mbi][m.ID()]
			if !okk {
				toks = append(toks, fmt.Sprintf("%d.?%s", mbi, hex.EncodeToString([]byte(m.ID()))))
				continue
			}
			c := "-"
			if _, err := r.store.GetMessage(r.names[mbi], m.ID()); err == nil {
				w := r.wr[mbi][k]
				c = "X"
				if rc, e := m.Source(); e == nil {
					got, _ := io.ReadAll(rc)
					rc.Close()
					if bytes.Equal(got, w.body) {
						c = w.subject[1:]
					}
				}
			}
			toks = append(toks, fmt.Sprintf("%d.%d.%d.%s", mbi, k, m.Size(), c))
		}
		lists = append(lists, strings.Join(toks, ","))
	}
	return "C" + strings.Join(lists, ";")
}

// visitStop is the operation w<k>:<mut> (last operation of a history): VisitMailboxes with a visitor
// that returns FALSE at its k-th non-empty mailbox (the walk must end there) and, with mut=1, removes
// the oldest message of every mailbox it is handed. Which mailboxes come first is the store's
// business (map / readdir order), so the observation counts:
//
//	W<handed over until the stop>:<calls after the visitor said stop>:<1 if every mailbox handed
//	  over showed exactly its listing>:<mailboxes that afterwards lack exactly their oldest
//	  message>:<mailboxes unchanged>:<mailboxes changed otherwise>:<deleted events>
func (r *runner) visitStop(k int, mut bool) string {
	before := make([][]string, len(r.names))
	beforeView := make([]string, len(r.names))
	for i, n := range r.names {
		ms, _ := r.store.GetMessages(n)
		for _, m := range ms {
			before[i] = append(before[i], m.ID())
		}
		beforeView[i] = r.views(i, ms)
	}
	handed, after, good := 0, 0, true
	stopped := false
	seen := map[int]bool{}
	err := r.store.VisitMailboxes(func(ms []storage.Message) bool {
		if len(ms) == 0 {
			return !stopped
		}
		if stopped {
			after++
			return false
		}
		handed++
		i, ok := r.nameI[ms[0].Mailbox()]
		if !ok || seen[i] || r.views(i, ms) != beforeView[i] {
			good = false
		} else {
			seen[i] = true
			if mut {
				if e := r.store.RemoveMessage(r.names[i], ms[0].ID()); e != nil {
					good = false
				}
			}
		}
		if handed >= k {
			stopped = true
			return false
		}
		return true
	})
	if err != nil {
		good = false
	}
	lost, same, other := 0, 0, 0
	for i, n := range r.names {
		ms, _ := r.store.GetMessages(n)
		var ids []string
		for _, m := range ms {
			ids = append(ids, m.ID())
		}
		switch {
		case strings.Join(ids, ",") == strings.Join(before[i], ","):
			same++
		case len(before[i]) > 0 && strings.Join(ids, ",") == strings.Join(before[i][1:], ","):
			lost++
		default:
			other++
		}
	}
	del, _, _ := r.log.flush(r.host)
	g := "0"
	if good {
		g = "1"
	}
	return fmt.Sprintf("W%d:%d:%s:%d:%d:%d:%d", handed, after, g, lost, same, other, len(del))
}

var dirSeq int

// Exec runs one history.
func Exec(kind string, in []string) []string {
	if len(in) != 5 {
		return []string{"BADLINE"}
	}
	mode, capN, maxkb := in[0], vh.AtoI(in[1]), vh.AtoI(in[2])
	host, log := newHost()
	var store storage.Store
	var err error
	var dir string
	// mode …@cfg<K>: the storage configuration as an operator can WRITE it, through the real
	// constructors registered as cmd/inbucket does (storage.FromConfig): see cfgVariant
	cfgK := 0
	if i := strings.Index(mode, "@cfg"); i >= 0 {
		cfgK = vh.AtoI(mode[i+4:])
		mode = mode[:i]
	}
	storage.Constructors["file"] = file.New
	storage.Constructors["memory"] = mem.New
	switch kind {
	case "mem":
		params := map[string]string{}
		if maxkb > 0 {
			params["maxkb"] = strconv.Itoa(maxkb)
		}
		c := config.Storage{Type: "memory", Params: params, MailboxMsgCap: capN}
		cfgVariant(cfgK, &c)
		store, err = storage.FromConfig(c, host)
	case "file":
		base := os.Getenv("VERIF_WORKDIR")
		if base == "" {
			base = os.TempDir()
		}
		dirSeq++
		dir = fmt.Sprintf("%s/fs-%d-%d", base, os.Getpid(), dirSeq)
		_ = os.RemoveAll(dir)
		if err = os.MkdirAll(dir, 0o770); err == nil {
			c := config.Storage{Type: "file", Params: map[string]string{"path": dir}, MailboxMsgCap: capN}
			cfgVariant(cfgK, &c)
			store, err = storage.FromConfig(c, host)
		}
		defer os.RemoveAll(dir)
	default:
		return []string{"UNKNOWN-KIND"}
	}
	if err != nil && cfgK != 0 {
		return []string{"NEWERR"} // a configuration the constructor refuses: the case ends here
	}
	if err != nil {
		return []string{"NEWERR", vh.HS(err.Error())}
	}
	r := &runner{store: store, host: host, log: log, mode: mode, nameI: map[string]int{}, dir: dir}
	r.mgr = &message.StoreManager{
		AddrPolicy: &policy.Addressing{Config: &config.Root{MailboxNaming: config.LocalNaming}},
		Store:      store, ExtHost: host,
	}
	host.Events.BeforeMessageStored.AddListener("verif", func(im event.InboundMessage) *event.InboundMessage {
		im.Mailboxes = []string{r.target}
		return &im
	})
	r.mode = strings.TrimSuffix(mode, "+o")
	for i, n := range strings.Split(in[3], ",") {
		name := vh.US(n)
		r.names = append(r.names, name)
		r.nameI[name] = i
		r.ids = append(r.ids, nil)
		r.handle = append(r.handle, map[string]int{})
		r.wr = append(r.wr, nil)
	}
	var outs []string
	if in[4] != "-" {
		ops := strings.Split(in[4], ",")
		// mode direct@wrap<P>: the first P operations (deliveries to one mailbox of the file store)
		// are written straight into the mailbox index with ids that straddle the wrap of the
		// process-wide counter within one second (…-9998, …-9999, …-0000, …): see wrap.go
		if i := strings.Index(r.mode, "@meta"); i >= 0 {
			r.mode = r.mode[:i]
			r.metaMode = true
		}
		if i := strings.Index(r.mode, "@wrap"); i >= 0 {
			p := vh.AtoI(r.mode[i+5:])
			r.mode = r.mode[:i]
			if kind == "file" && p <= len(ops) {
				toks, err := r.plantWrapped(dir, ops[:p])
				if err != nil {
					return []string{"PLANTERR", vh.HS(err.Error())}
				}
				outs = append(outs, toks...)
				ops = ops[p:]
			}
		}
		for _, o := range ops {
			outs = append(outs, r.op(o))
		}
	}
	return outs
}

// cfgVariant rewrites the storage configuration the way variant k spells it (the <cap>/<maxkb> fields of
// the line stay what the MODEL is told; variants 1-5 are only used with maxkb = 0, 6 with cap = 0):
//
//	1 maxkb:0 present        -> no limit        2 maxkb: (empty)   -> constructor error
//	3 maxkb:-5               -> no limit        4 maxkb:abc        -> constructor error
//	5 maxkb:9007199254740991 -> never reached   6 cap -3           -> no cap
//	7 file: path with a trailing slash; memory: an unknown extra parameter -> as without
//
// (what the unchanged constructors do with each; maxkb values whose *1024 overflows int64 are left out:
// the clean tree then computes a negative limit.)
func cfgVariant(k int, c *config.Storage) {
	switch k {
	case 1:
		c.Params["maxkb"] = "0"
	case 2:
		c.Params["maxkb"] = ""
	case 3:
		c.Params["maxkb"] = "-5"
	case 4:
		c.Params["maxkb"] = "abc"
	case 5:
		c.Params["maxkb"] = "9007199254740991"
	case 6:
		c.MailboxMsgCap = -3
	case 7:
		if p, ok := c.Params["path"]; ok {
			c.Params["path"] = p + "/"
		} else {
			c.Params["colour"] = "blue"
		}
	}
}

// ---------------------------------------------------------------- generators

// Colliding returns n distinct mailbox names whose SHA-1 hashes share the first 12 bits
// (same level-1 directory and same hash-lock bucket in the file store).
func Colliding(n int) []string {
	buckets := map[string][]string{}
	for i := 0; ; i++ {
		name := "c" + strconv.Itoa(i)
		h := sha1.Sum([]byte(name))
		p := hex.EncodeToString(h[:])[:3]
		buckets[p] = append(buckets[p], name)
		if len(buckets[p]) == n {
			return buckets[p]
		}
	}
}

var special = []string{"a@example.com", "x+y", "we!rd#name", "UPPER", "dot.ted", "sp ace", "ü-mlaut", "per%25cent", "a/b", "q?x=1", "-", "_u_"}

// Names picks 1..5 distinct mailbox names.
func Names(g *vh.Gen) []string {
	n := 1 + g.Intn(5)
	pool := []string{}
	pool = append(pool, Colliding(3)...)
	pool = append(pool, special...)
	pool = append(pool, "alice", "bob")
	g.Shuffle(len(pool), func(i, j int) { pool[i], pool[j] = pool[j], pool[i] })
	if g.Chance(0.2) {
		// spellings that differ only in letter case are DIFFERENT mailboxes (names are byte strings;
		// mixed-case names come from direct store use and before.message_stored hooks): every
		// listing and every event must carry the spelling the message was stored under
		cv := []string{"casebox", "CaseBox", "CASEBOX"}
		g.Shuffle(len(cv), func(i, j int) { cv[i], cv[j] = cv[j], cv[i] })
		k := 2 + g.Intn(2)
		if n < k {
			n = k
		}
		out := append([]string{}, cv[:k]...)
		for _, p := range pool {
			if len(out) >= n {
				break
			}
			out = append(out, p)
		}
		return out
	}
	if g.Chance(0.3) {
		// make sure colliding names meet
		c := Colliding(3)
		if n < 2 {
			n = 2
		}
		out := append([]string{}, c[:2]...)
		for _, p := range pool {
			if len(out) >= n {
				break
			}
			if p != c[0] && p != c[1] {
				out = append(out, p)
			}
		}
		return out
	}
	return pool[:n]
}

// Profile steers a history generator.
type Profile struct {
	MinOps, MaxOps int
	Sizes          []int   // candidate message sizes
	PAdd           float64 // probability of an add
	Oversize       int     // size of an oversize message (0: never)
}

// Ops generates the op list for nm mailboxes.
func Ops(g *vh.Gen, nm int, p Profile) string {
	n := p.MinOps + g.Intn(p.MaxOps-p.MinOps+1)
	adds := make([]int, nm)
	date := int64(1600000000 + g.Intn(1000000))
	var ops []string
	handle := func(mb int) string {
		x := g.Float64()
		switch {
		case x < 0.05:
			return "b"
		case x < 0.13 && adds[mb] > 0:
			return "z" + strconv.Itoa(g.Intn(adds[mb])) + "." + strconv.Itoa(g.Intn(18))
		case x < 0.16:
			return "l"
		case x < 0.22:
			return "k" + strconv.Itoa(adds[mb]+g.Intn(3)) // not issued yet
		case adds[mb] == 0:
			return "k0"
		}
		return "k" + strconv.Itoa(g.Intn(adds[mb]))
	}
	for i := 0; i < n; i++ {
		mb := g.Intn(nm)
		x := g.Float64()
		y := (x - p.PAdd) / (1 - p.PAdd) // position within the non-add operations
		switch {
		case x < p.PAdd:
			size := p.Sizes[g.Intn(len(p.Sizes))]
			if p.Oversize > 0 && g.Chance(0.04) {
				size = p.Oversize
			}
			date += int64(g.Intn(100))
			ops = append(ops, fmt.Sprintf("a%d:%d:%d", mb, date, size))
			adds[mb]++
		case y < 0.19:
			ops = append(ops, fmt.Sprintf("g%d:%s", mb, handle(mb)))
		case y < 0.43:
			ops = append(ops, fmt.Sprintf("l%d", mb))
		case y < 0.56:
			ops = append(ops, fmt.Sprintf("s%d:%s", mb, handle(mb)))
		case y < 0.80:
			h := handle(mb)
			ops = append(ops, fmt.Sprintf("r%d:%s", mb, h))
			if g.Chance(0.2) {
				ops = append(ops, fmt.Sprintf("r%d:%s", mb, h)) // double remove
			}
		case y < 0.90:
			ops = append(ops, fmt.Sprintf("p%d", mb))
			if g.Chance(0.5) {
				ops = append(ops, fmt.Sprintf("g%d:l", mb)) // purge-then-latest
			}
		default:
			ops = append(ops, "v")
		}
	}
	// always end with a full look
	for mb := 0; mb < nm; mb++ {
		ops = append(ops, fmt.Sprintf("l%d", mb))
	}
	ops = append(ops, "v")
	return strings.Join(ops, ",")
}

// EmitHistory prints one history for the given back-ends.
func EmitHistory(g *vh.Gen, backends []string, mode string, capN, maxkb int, names []string, ops string) {
	hn := make([]string, len(names))
	for i, n := range names {
		hn[i] = vh.HS(n)
	}
	for _, b := range backends {
		mk := maxkb
		if b == "file" {
			mk = 0
		}
		g.Emit(b, mode, vh.I(capN), vh.I(mk), strings.Join(hn, ","), ops)
	}
}

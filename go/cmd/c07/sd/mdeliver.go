package sd

import (
	"errors"
	"fmt"
	"net/mail"
	"os"
	"path/filepath"
	"strings"

	"github.com/inbucket/inbucket/v3/pkg/config"
	"github.com/inbucket/inbucket/v3/pkg/message"
	"github.com/inbucket/inbucket/v3/pkg/policy"
	"github.com/inbucket/inbucket/v3/pkg/storage"
	"github.com/inbucket/inbucket/v3/pkg/storage/file"
	"github.com/inbucket/inbucket/v3/pkg/storage/mem"
	"github.com/inbucket/inbucket/v3/pkg/stringutil"
	"verifharness/vh"
)

// mdeliver <mem|file> <recipients> <fail> <rounds>
//
// One message to several recipients through the real message.StoreManager.Deliver (recipients from
// the real address policy), with Store.AddMessage FAILING for recipient number <fail> (0-based;
// fail >= recipients: no failure): on the file store through a genuine obstacle (a plain file where
// the mailbox's level-1 hash directory should be), on the memory store through a wrapper that
// returns an error for that mailbox. Repeated <rounds> times into the same store.
// Deliver stops at the failing mailbox; every copy that DID enter a mailbox must have its stored
// event (C16: "every message that enters a mailbox produces exactly one stored event").
//
// Output: err=<deliveries that returned an error> then per recipient r<i>:<messages listed in its
// mailbox>:<stored events naming a listed message>:<stored events naming no listed message>,
// and del=<deleted events>.

type failStore struct {
	storage.Store
	failMB string
}

func (f *failStore) AddMessage(m storage.Message) (string, error) {
	if m.Mailbox() == f.failMB {
		return "", errors.New("verif: injected AddMessage failure")
	}
	return f.Store.AddMessage(m)
}

// GenMDeliver emits the multi-recipient cases.
func GenMDeliver(g *vh.Gen) {
	for _, b := range []string{"mem", "file"} {
		for n := 1; n <= 4; n++ {
			for f := 0; f <= n; f++ {
				g.Emit("mdeliver", b, vh.I(n), vh.I(f), vh.I(1+g.Intn(3)))
			}
		}
		// many recipients, the failing one far from the first
		for _, nf := range [][2]int{{12, 7}, {40, 39}, {40, 40}, {100, 64}} {
			g.Emit("mdeliver", b, vh.I(nf[0]), vh.I(nf[1]), "1")
		}
	}
}

// ExecMDeliver runs one case.
func ExecMDeliver(in []string) []string {
	backend, n, fail, rounds := in[0], vh.AtoI(in[1]), vh.AtoI(in[2]), vh.AtoI(in[3])
	host, log := newHost()
	boxes := make([]string, n)
	for i := range boxes {
		boxes[i] = fmt.Sprintf("rcpt%d", i)
	}
	var store storage.Store
	var err error
	if backend == "file" {
		base := os.Getenv("VERIF_WORKDIR")
		if base == "" {
			base = os.TempDir()
		}
		dirSeq++
		dir := fmt.Sprintf("%s/fsm-%d-%d", base, os.Getpid(), dirSeq)
		_ = os.RemoveAll(dir)
		defer os.RemoveAll(dir)
		if err = os.MkdirAll(dir, 0o770); err == nil {
			store, err = file.New(config.Storage{Type: "file", Params: map[string]string{"path": dir}}, host)
		}
		if err == nil && fail < n {
			// a plain file where the failing mailbox's level-1 directory should be
			hash := stringutil.HashMailboxName(boxes[fail])
			for i, b := range boxes {
				if i != fail && stringutil.HashMailboxName(b)[0:3] == hash[0:3] {
					return []string{"HASH-PREFIX-CLASH"}
				}
			}
			err = os.WriteFile(filepath.Join(dir, "mail", hash[0:3]), []byte("obstacle"), 0o660)
		}
	} else {
		store, err = mem.New(config.Storage{Type: "memory", Params: map[string]string{}}, host)
		if err == nil && fail < n {
			store = &failStore{Store: store, failMB: boxes[fail]}
		}
	}
	if err != nil {
		return []string{"NEWERR", vh.HS(err.Error())}
	}
	conf := &config.Root{MailboxNaming: config.LocalNaming}
	conf.SMTP.DefaultStore = true
	mgr := &message.StoreManager{AddrPolicy: &policy.Addressing{Config: conf}, Store: store, ExtHost: host}
	var rcpts []*policy.Recipient
	for _, b := range boxes {
		r, e := mgr.AddrPolicy.NewRecipient(b + "@example.com")
		if e != nil {
			return []string{"RCPTERR"}
		}
		rcpts = append(rcpts, r)
	}
	nerr := 0
	for k := 0; k < rounds; k++ {
		src := fmt.Sprintf("Subject: multi %d\r\nFrom: a@example.com\r\nTo: many@example.com\r\n\r\nbody %d\r\n", k, k)
		if e := mgr.Deliver(&policy.Origin{Address: mail.Address{Address: "a@example.com"}}, rcpts, "from verif", []byte(src)); e != nil {
			nerr++
		}
	}
	del, sto, ok := log.flush(host)
	if !ok {
		return []string{"FLUSH-TIMEOUT"}
	}
	out := []string{"err=" + vh.I(nerr)}
	for i, b := range boxes {
		listed := map[string]bool{}
		if ms, e := store.GetMessages(b); e == nil {
			for _, m := range ms {
				listed[m.ID()] = true
			}
		}
		good, bad := 0, 0
		seen := map[string]int{}
		for _, e := range sto {
			if e.Mailbox != b {
				continue
			}
			seen[e.ID]++
			if listed[e.ID] && seen[e.ID] == 1 {
				good++
			} else {
				bad++
			}
		}
		out = append(out, fmt.Sprintf("r%d:%d:%d:%d", i, len(listed), good, bad))
	}
	out = append(out, "del="+vh.I(len(del)))
	_ = strings.Join
	return out
}

// sdeliver <mem|file> <recipients> <variant> <rounds>
//
// ONE delivery (the real StoreManager.Deliver, real address policy, local naming) whose recipients all
// map to ONE mailbox: variant 0 = +tags (box+t0@…, box+t1@…), 1 = the same address repeated,
// 2 = letter-case variants of the local part. Same content, same date for all copies. Every recipient
// is a delivery of its own: k recipients -> k messages in the mailbox with k distinct ids and k stored
// events, each carrying the id of its own copy; removing them afterwards gives exactly one deleted
// event per id. Repeated <rounds> times.
// Output: err=<failed deliveries> box=<1 if all recipients map to one mailbox> listed=<messages>
//         ids=<distinct ids listed> stored=<stored events> sids=<distinct ids among them, all listed>
//         del=<deleted events after removing every listed message> dids=<distinct ids among them>.
func GenSDeliver(g *vh.Gen) {
	for _, b := range []string{"mem", "file"} {
		for v := 0; v <= 2; v++ {
			for _, k := range []int{2, 3, 10, 40} {
				g.Emit("sdeliver", b, vh.I(k), vh.I(v), vh.I(1+g.Intn(2)))
			}
		}
	}
}

// ExecSDeliver runs one case.
func ExecSDeliver(in []string) []string {
	backend, k, variant, rounds := in[0], vh.AtoI(in[1]), vh.AtoI(in[2]), vh.AtoI(in[3])
	host, log := newHost()
	var store storage.Store
	var err error
	storage.Constructors["file"] = file.New
	storage.Constructors["memory"] = mem.New
	if backend == "file" {
		base := os.Getenv("VERIF_WORKDIR")
		if base == "" {
			base = os.TempDir()
		}
		dirSeq++
		dir := fmt.Sprintf("%s/fss-%d-%d", base, os.Getpid(), dirSeq)
		_ = os.RemoveAll(dir)
		defer os.RemoveAll(dir)
		if err = os.MkdirAll(dir, 0o770); err == nil {
			store, err = storage.FromConfig(config.Storage{Type: "file", Params: map[string]string{"path": dir}}, host)
		}
	} else {
		store, err = storage.FromConfig(config.Storage{Type: "memory", Params: map[string]string{}}, host)
	}
	if err != nil {
		return []string{"NEWERR", vh.HS(err.Error())}
	}
	conf := &config.Root{MailboxNaming: config.LocalNaming}
	conf.SMTP.DefaultStore = true
	mgr := &message.StoreManager{AddrPolicy: &policy.Addressing{Config: conf}, Store: store, ExtHost: host}
	var rcpts []*policy.Recipient
	oneBox := true
	for i := 0; i < k; i++ {
		addr := "samebox@example.com"
		switch variant {
		case 0:
			addr = fmt.Sprintf("samebox+t%d@example.com", i)
		case 2:
			addr = []string{"samebox@example.com", "SameBox@example.com", "SAMEBOX@example.com"}[i%3]
		}
		r, e := mgr.AddrPolicy.NewRecipient(addr)
		if e != nil {
			return []string{"RCPTERR", vh.HS(e.Error())}
		}
		if len(rcpts) > 0 && r.Mailbox != rcpts[0].Mailbox {
			oneBox = false
		}
		rcpts = append(rcpts, r)
	}
	box := rcpts[0].Mailbox
	nerr := 0
	for n := 0; n < rounds; n++ {
		src := fmt.Sprintf("Subject: same %d\r\nFrom: a@example.com\r\nTo: many@example.com\r\n\r\nbody %d\r\n", n, n)
		if e := mgr.Deliver(&policy.Origin{Address: mail.Address{Address: "a@example.com"}}, rcpts, "from verif", []byte(src)); e != nil {
			nerr++
		}
	}
	_, sto, ok := log.flush(host)
	if !ok {
		return []string{"FLUSH-TIMEOUT"}
	}
	listed := map[string]bool{}
	nlisted := 0
	ms, _ := store.GetMessages(box)
	for _, m := range ms {
		listed[m.ID()] = true
		nlisted++
	}
	sids := map[string]bool{}
	for _, e := range sto {
		if e.Mailbox == box && listed[e.ID] {
			sids[e.ID] = true
		}
	}
	for id := range listed {
		_ = store.RemoveMessage(box, id)
	}
	del, _, ok2 := log.flush(host)
	if !ok2 {
		return []string{"FLUSH-TIMEOUT"}
	}
	dids := map[string]bool{}
	for _, e := range del {
		if e.Mailbox == box && listed[e.ID] {
			dids[e.ID] = true
		}
	}
	return []string{"err=" + vh.I(nerr), "box=" + vh.B(oneBox), "listed=" + vh.I(nlisted), "ids=" + vh.I(len(listed)),
		"stored=" + vh.I(len(sto)), "sids=" + vh.I(len(sids)), "del=" + vh.I(len(del)), "dids=" + vh.I(len(dids))}
}

// Driver for C16 (one stored / one deleted event per message, causal order): histories under
// every limit combination on both stores, delivered through the real StoreManager.Deliver,
// observed by listeners registered through the public extension.Host; plus forced schedules of
// the asynchronous broker (kind "sched") and forced schedules of concurrent store operations against
// each other and the size enforcer through the mem.* verifhook points (kind "conc").
// See package sd (shared with C07 and C08).
package main

import (
	"verifharness/cmd/c07/sd"
	"verifharness/vh"
)

func gen(g *vh.Gen) {
	caps := []int{0, 1, 2, 3}
	maxs := []int{0, 1, 4}
	for i := 0; i < g.N(400, 15000); i++ {
		capN := caps[g.Intn(len(caps))]
		maxkb := maxs[g.Intn(len(maxs))]
		names := sd.Names(g)
		if len(names) > 3 {
			names = names[:3]
		}
		p := sd.Profile{MinOps: 4, MaxOps: 40, Sizes: []int{400, 600, 900, 1024, 2000}, PAdd: 0.5}
		ops := sd.Ops(g, len(names), p)
		backends := []string{"mem", "file"}
		if maxkb > 0 {
			backends = []string{"mem"}
		}
		mode := "deliver+o"
		if g.Chance(0.3) {
			mode = "direct+o"
		}
		sd.EmitHistory(g, backends, mode, capN, maxkb, names, ops)
	}
	sd.GenSched(g)
	sd.GenSched2(g)
	sd.GenSlow(g)
	sd.GenChurn(g)
	sd.GenMDeliver(g)
	sd.GenSDeliver(g)
	sd.GenConc(g)
}

func exec(kind string, in []string) []string {
	if kind == "sched" {
		return sd.ExecSched(in)
	}
	if kind == "cdeliver" {
		return sd.ExecCDeliver(in) // witness of K-C16-concurrent-stored-after-deleted, run from the corpus
	}
	if kind == "sdeliver" {
		return sd.ExecSDeliver(in)
	}
	if kind == "mdeliver" {
		return sd.ExecMDeliver(in)
	}
	if kind == "churn" {
		return sd.ExecChurn(in)
	}
	if kind == "slow" {
		return sd.ExecSlow(in)
	}
	if kind == "sched2" {
		return sd.ExecSched2(in)
	}
	if kind == "conc" {
		return sd.ExecConc(in)
	}
	if kind == "xbroker" {
		return sd.ExecXBroker(in) // manual replay of the cross-broker schedule, never generated
	}
	return sd.Exec(kind, in)
}

func main() { vh.Main(gen, exec) }

package main

import (
	"strings"
	"time"

	"github.com/inbucket/inbucket/v3/pkg/config"
	"github.com/inbucket/inbucket/v3/pkg/server/pop3"
	"verifharness/vh"
)

// overlap <flavour> <init> <steps>: up to four connections to ONE server that are open AT THE SAME
// TIME. steps = <k>:<hex line>,...: the line goes to connection k (opened on first use); every
// command is owed a reply within a generous deadline - BLOCKED<k> if none comes (the session
// neither answers nor asks for input nor closes). On the unchanged server sessions share nothing
// but the store: a second login to a mailbox that is open elsewhere succeeds.
// once a session has wedged, later cases wait less (a wedging server would otherwise eat the run's time)
var blockedOnce bool

func execOverlap(in []string) []string {
	if len(in) != 3 {
		return []string{"bad-args"}
	}
	st, cleanup := newStore(in[0])
	defer cleanup()
	w := &world{store: st, handles: map[string]map[string]int{}, ids: map[string][]string{}, names: map[string]bool{}}
	if in[1] != "-" {
		for _, box := range split(in[1], ";") {
			i := strings.IndexByte(box, ':')
			if i < 0 {
				continue
			}
			w.names[box[:i]] = true
			for _, s := range split(box[i+1:], ".") {
				w.deliver(vh.US(box[:i]), vh.U(s))
			}
		}
	}
	srv, err := pop3.NewServer(config.POP3{Domain: "verif", Timeout: 300 * time.Second}, st)
	if err != nil {
		panic(err)
	}
	conns := map[string]*session{}
	var outs []string
	blocked := false
	for _, step := range split(in[2], ",") {
		i := strings.IndexByte(step, ':')
		k, line := step[:i], vh.U(step[i+1:])
		s := conns[k]
		if s == nil {
			s = startSession(srv, len(conns)+1)
			s.conn.patience = 5 * time.Second
			if blockedOnce {
				s.conn.patience = 300 * time.Millisecond
			}
			conns[k] = s
			if !s.conn.waitIdle() {
				outs = append(outs, "BLOCKED"+k)
				blocked = true
				break
			}
			outs = append(outs, "G"+k+w.project("", s.conn.replyUnits()[0]))
		}
		if s.conn.isClosed() {
			outs = append(outs, "CLOSED"+k)
			continue
		}
		n := len(s.conn.replyUnits())
		if !s.conn.feed(line) {
			outs = append(outs, "BLOCKED"+k)
			blocked = true
			break
		}
		u := s.conn.replyUnits()
		if len(u) > n {
			outs = append(outs, "R"+k+w.project(commandWord(line), u[n]))
		} else {
			outs = append(outs, "NOREPLY"+k)
		}
	}
	if blocked {
		blockedOnce = true
		return outs // the wedged sessions are left behind; Drain would not return
	}
	for _, s := range conns {
		s.conn.sendEOF()
	}
	for k, s := range conns {
		select {
		case <-s.done:
		case <-time.After(5 * time.Second):
			return append(outs, "BLOCKED-AT-END"+k)
		}
	}
	srv.Drain()
	return outs
}

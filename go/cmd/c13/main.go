// Driver for C13 (POP3 session = stable snapshot, deletes commit only on QUIT) and the POP3
// wire part of C02.
//
//	net <mem|file> <init> <chunks> <eof|idle|err> =>  the same for a scripted connection (pauses between chunks, three endings)
//	bytes <mem|file> <init> <hexstream>      =>  the same observation for ONE raw byte stream, then EOF
//	sess <mem|file>[:<cap>[:<maxkb>]] <init> <events>  =>  <reply> ... S<box>=<handle>:<size>. ...
//
// init:   - | box;box..      box = <namehex>:<srchex>.<srchex>..   (messages delivered before the session)
// events: - | ev,ev,..       c<hex> client bytes (any chunking) | d<name>:<src> delivery |
//	x<name>:<k> another client removes the k-th message ever delivered to <name> |
//	p<name> purge | w the client stops reading (every later write fails) |
//	t the idle timeout fires | r reading fails (connection reset) |
//	n the client drops the connection (EOF, if still open) and connects again (N in the outs)
//
// The connection ends with EOF after the last event (unless the server closed it before).
// The real pop3.Server runs the session through the verif entry point VerifServe on a
// scripted net.Conn against the real mem / file store. Replies are parsed structurally:
// status, the numbers of the status line, the ids as handles, the body.
package main

import (
	"bytes"
	"encoding/hex"
	"errors"
	"fmt"
	"io"
	"net/mail"
	"os"
	"regexp"
	"runtime/debug"
	"sort"
	"strconv"
	"strings"
	"time"

	"github.com/inbucket/inbucket/v3/pkg/config"
	"github.com/inbucket/inbucket/v3/pkg/extension"
	"github.com/inbucket/inbucket/v3/pkg/extension/event"
	"github.com/inbucket/inbucket/v3/pkg/message"
	"github.com/inbucket/inbucket/v3/pkg/server/pop3"
	"github.com/inbucket/inbucket/v3/pkg/storage"
	"github.com/inbucket/inbucket/v3/pkg/storage/file"
	"github.com/inbucket/inbucket/v3/pkg/storage/mem"
	"github.com/rs/zerolog"
	"verifharness/vh"
)

func split(s, sep string) []string {
	if s == "" {
		return nil
	}
	return strings.Split(s, sep)
}

// world is the store plus the harness's handle bookkeeping.
type world struct {
	store   storage.Store
	handles map[string]map[string]int // mailbox -> id -> handle
	ids     map[string][]string       // mailbox -> handle -> id
	names   map[string]bool           // mailboxes named in init / deliveries (hex)
}

func (w *world) deliver(name string, src []byte) {
	d := &message.Delivery{
		Meta: event.MessageMetadata{
			Mailbox: name,
			From:    &mail.Address{Address: "from@example.com"},
			To:      []*mail.Address{{Address: "to@example.com"}},
			Date:    time.Now(),
			Subject: "s",
		},
		Reader: io.NopCloser(bytes.NewReader(src)),
	}
	id, err := w.store.AddMessage(d)
	if err != nil {
		panic("harness: AddMessage failed: " + err.Error())
	}
	if w.handles[name] == nil {
		w.handles[name] = map[string]int{}
	}
	w.handles[name][id] = len(w.ids[name])
	w.ids[name] = append(w.ids[name], id)
	w.names[vh.HS(name)] = true
}

// handleOf maps a store id to its handle (the same in every mailbox that knows it).
func (w *world) handleOf(id string) string {
	h := -1
	for _, m := range w.handles {
		if k, ok := m[id]; ok {
			if h >= 0 && h != k {
				return "x" + vh.HS(id)
			}
			h = k
		}
	}
	if h < 0 {
		return "x" + vh.HS(id)
	}
	return "h" + strconv.Itoa(h)
}

var intTok = regexp.MustCompile(`^-?[0-9]+$`)

// commandWord is only used to choose the projection of a reply.
func commandWord(line []byte) string {
	l := strings.TrimRight(string(line), "\r\n")
	return strings.ToUpper(strings.Split(l, " ")[0])
}

// project turns the raw bytes of one reply unit into its structural form.
func (w *world) project(word string, unit []byte) string {
	i := bytes.Index(unit, []byte("\r\n"))
	if i < 0 {
		return "?/-/X" + vh.H(unit)
	}
	status, rest := string(unit[:i]), unit[i+2:]
	st := "?"
	switch {
	case strings.HasPrefix(status, "+OK"):
		st = "+"
	case strings.HasPrefix(status, "-ERR"):
		st = "-"
	}
	multi := len(rest) > 0
	var toks []string
	if st == "+" {
		words := strings.Split(status, " ")[1:]
		switch word {
		case "STAT", "LIST", "DELE", "RETR":
			for _, t := range words {
				if intTok.MatchString(t) {
					toks = append(toks, t)
				}
			}
		case "UIDL":
			if !multi && len(words) >= 2 && intTok.MatchString(words[0]) {
				toks = append(toks, words[0], w.handleOf(words[1]))
			} else {
				for _, t := range words {
					if intTok.MatchString(t) {
						toks = append(toks, t)
					}
				}
			}
		case "PASS", "APOP":
			for _, t := range words {
				if intTok.MatchString(t) {
					toks = append(toks, t)
					break
				}
			}
		}
	}
	ts := "-"
	if len(toks) > 0 {
		ts = strings.Join(toks, ",")
	}
	body := "-"
	if multi {
		terminated := bytes.Equal(rest, []byte(".\r\n")) || bytes.HasSuffix(rest, []byte("\r\n.\r\n"))
		switch {
		case !terminated:
			if bytes.HasPrefix(rest, []byte("-ERR")) && bytes.Count(rest, []byte("\r\n")) == 1 && bytes.HasSuffix(rest, []byte("\r\n")) {
				body = "F"
			} else {
				body = "X" + vh.H(rest)
			}
		case word == "CAPA":
			body = "C"
		case word == "LIST" || word == "UIDL":
			lines := strings.Split(string(rest[:len(rest)-3]), "\r\n")
			lines = lines[:len(lines)-1]
			var rows []string
			ok := true
			for _, l := range lines {
				f := strings.Split(l, " ")
				if len(f) != 2 || !intTok.MatchString(f[0]) {
					ok = false
					break
				}
				if word == "LIST" {
					if !intTok.MatchString(f[1]) {
						ok = false
						break
					}
					rows = append(rows, f[0]+":"+f[1])
				} else {
					rows = append(rows, f[0]+":"+w.handleOf(f[1]))
				}
			}
			if ok {
				body = map[string]string{"LIST": "L", "UIDL": "U"}[word] + strings.Join(rows, ";")
			} else {
				body = "W" + vh.H(rest)
			}
		default:
			body = "W" + vh.H(rest)
		}
	}
	return st + "/" + ts + "/" + body
}

func newStore(flavour string) (storage.Store, func()) {
	ext := extension.NewHost()
	capN := 0
	params := map[string]string{}
	if parts := strings.Split(flavour, ":"); len(parts) > 1 {
		flavour = parts[0]
		capN = vh.AtoI(parts[1])
		if len(parts) > 2 && parts[2] != "0" {
			params["maxkb"] = parts[2] // the memory store's store-wide size limit
		}
	}
	switch flavour {
	case "mem":
		s, err := mem.New(config.Storage{MailboxMsgCap: capN, Params: params}, ext)
		if err != nil {
			panic(err)
		}
		return s, func() {}
	case "file":
		base := os.Getenv("VERIF_WORKDIR")
		if base == "" {
			base = os.TempDir()
		}
		dir, err := os.MkdirTemp(base, "c13store")
		if err != nil {
			panic(err)
		}
		s, err := file.New(config.Storage{Params: map[string]string{"path": dir}, MailboxMsgCap: capN}, ext)
		if err != nil {
			panic(err)
		}
		return s, func() { os.RemoveAll(dir) }
	}
	panic("unknown flavour " + flavour)
}

func exec(kind string, in []string) []string {
	if kind == "stress" {
		return execStress(in)
	}
	if kind == "overlap" {
		return execOverlap(in)
	}
	if kind == "tls" {
		return execTLS(in)
	}
	if kind == "net" && len(in) == 4 {
		return execNet(in)
	}
	if kind == "bytes" && len(in) == 3 {
		// one raw client byte stream in a single write, then EOF
		return exec("sess", []string{in[0], in[1], "c" + in[2]})
	}
	if kind != "sess" || len(in) != 3 {
		return []string{"UNKNOWN-KIND"}
	}
	st, cleanup := newStore(in[0])
	defer cleanup()
	w := &world{store: st, handles: map[string]map[string]int{}, ids: map[string][]string{}, names: map[string]bool{}}
	if in[1] != "-" {
		for _, box := range split(in[1], ";") {
			i := strings.IndexByte(box, ':')
			if i < 0 {
				continue
			}
			name := vh.US(box[:i])
			w.names[box[:i]] = true
			for _, s := range split(box[i+1:], ".") {
				w.deliver(name, vh.U(s))
			}
		}
	}
	srv, err := pop3.NewServer(config.POP3{Domain: "verif", Timeout: 300 * time.Second}, st)
	if err != nil {
		panic(err)
	}
	var outs []string
	sid := 0
	var cur *session
	open := func() string {
		sid++
		cur = startSession(srv, sid)
		if !cur.conn.waitIdle() {
			return "WEDGED"
		}
		return ""
	}
	// finish ends the current connection (EOF if the server has not closed it) and
	// appends its projected replies.
	finish := func() string {
		cur.conn.sendEOF()
		var pmsg string
		select {
		case pmsg = <-cur.done:
		case <-time.After(20 * time.Second):
			return "WEDGED-AT-END"
		}
		if pmsg != "" {
			return "PANIC " + vh.HS(pmsg)
		}
		if cur.conn.hasSpun() {
			return "SPIN"
		}
		for i, u := range cur.conn.replyUnits() {
			word := ""
			if i > 0 && i-1 < len(cur.words) {
				word = cur.words[i-1]
			}
			outs = append(outs, w.project(word, u))
		}
		return ""
	}
	if bad := open(); bad != "" {
		return []string{bad}
	}
	if in[2] != "-" {
		for _, ev := range split(in[2], ",") {
			arg := ev[1:]
			conn := cur.conn
			switch ev[0] {
			case 'c':
				if conn.isClosed() {
					continue
				}
				b := vh.U(arg)
				for _, c := range b {
					cur.pending = append(cur.pending, c)
					if c == '\n' {
						cur.words = append(cur.words, commandWord(cur.pending))
						cur.pending = nil
					}
				}
				if !conn.feed(b) {
					return []string{"WEDGED"}
				}
			case 'd':
				i := strings.IndexByte(arg, ':')
				w.deliver(vh.US(arg[:i]), vh.U(arg[i+1:]))
			case 'x':
				i := strings.IndexByte(arg, ':')
				name := vh.US(arg[:i])
				k := vh.AtoI(arg[i+1:])
				if k < len(w.ids[name]) {
					_ = st.RemoveMessage(name, w.ids[name][k])
				}
			case 'p':
				_ = st.PurgeMessages(vh.US(arg))
			case 'w':
				conn.breakWrites()
			case 't', 'r':
				if conn.isClosed() {
					continue
				}
				var e error = timeoutErr{}
				if ev[0] == 'r' {
					e = errors.New("connection reset by peer")
				}
				if !conn.failRead(e) {
					return []string{"WEDGED"}
				}
			case 'n':
				if bad := finish(); bad != "" {
					return strings.Split(bad, " ")
				}
				outs = append(outs, "N")
				if bad := open(); bad != "" {
					return []string{bad}
				}
			}
		}
	}
	if bad := finish(); bad != "" {
		return strings.Split(bad, " ")
	}
	srv.Drain() // every session must have left the WaitGroup
	var names []string
	for n := range w.names {
		names = append(names, n)
	}
	sort.Strings(names)
	for _, n := range names {
		msgs, err := st.GetMessages(vh.US(n))
		if err != nil {
			outs = append(outs, "S"+n+"=ERR"+hex.EncodeToString([]byte(err.Error())))
			continue
		}
		rows := make([]string, len(msgs))
		for i, m := range msgs {
			rows[i] = w.handleOf(m.ID()) + ":" + strconv.FormatInt(m.Size(), 10)
		}
		outs = append(outs, "S"+n+"="+strings.Join(rows, "."))
	}
	return outs
}

// execNet: net <flavour> <init> <chunks> <eof|idle|err> - one session over a scripted connection:
// chunks (hex, comma separated, "-" = none) arrive with a pause longer than the idle timeout
// between them, then the connection ends by EOF, silence or a read error.
func execNet(in []string) []string {
	st, cleanup := newStore(in[0])
	defer cleanup()
	w := &world{store: st, handles: map[string]map[string]int{}, ids: map[string][]string{}, names: map[string]bool{}}
	if in[1] != "-" {
		for _, box := range split(in[1], ";") {
			i := strings.IndexByte(box, ':')
			if i < 0 {
				continue
			}
			w.names[box[:i]] = true
			for _, s := range split(box[i+1:], ".") {
				w.deliver(vh.US(box[:i]), vh.U(s))
			}
		}
	}
	var chunks [][]byte
	var words []string
	if in[2] != "-" {
		for _, c := range strings.Split(in[2], ",") {
			b := vh.U(c)
			chunks = append(chunks, b)
			var pending []byte // a partial line before a pause is dropped by the server
			for _, x := range b {
				pending = append(pending, x)
				if x == '\n' {
					words = append(words, commandWord(pending))
					pending = nil
				}
			}
		}
	}
	srv, err := pop3.NewServer(config.POP3{Domain: "verif", Timeout: 300 * time.Second}, st)
	if err != nil {
		panic(err)
	}
	s := &session{conn: newScriptedConn(chunks, in[3]), done: make(chan string, 1)}
	go func() {
		defer func() {
			if r := recover(); r != nil {
				fmt.Fprintf(os.Stderr, "session panic: %v\n%s\n", r, debug.Stack())
				s.conn.Close()
				s.done <- fmt.Sprint(r)
				return
			}
			s.done <- ""
		}()
		srv.VerifServe(1, s.conn)
	}()
	select {
	case p := <-s.done:
		if p != "" {
			return []string{"PANIC", vh.HS(p)}
		}
	case <-time.After(20 * time.Second):
		return []string{"WEDGED"}
	}
	srv.Drain()
	if s.conn.hasSpun() {
		return []string{"SPIN"} // the session kept reading although every read failed
	}
	var outs []string
	for i, u := range s.conn.replyUnits() {
		word := ""
		if i > 0 && i-1 < len(words) {
			word = words[i-1]
		}
		outs = append(outs, w.project(word, u))
	}
	var names []string
	for n := range w.names {
		names = append(names, n)
	}
	sort.Strings(names)
	for _, n := range names {
		msgs, err := st.GetMessages(vh.US(n))
		if err != nil {
			outs = append(outs, "S"+n+"=ERR"+hex.EncodeToString([]byte(err.Error())))
			continue
		}
		rows := make([]string, len(msgs))
		for i, m := range msgs {
			rows[i] = w.handleOf(m.ID()) + ":" + strconv.FormatInt(m.Size(), 10)
		}
		outs = append(outs, "S"+n+"="+strings.Join(rows, "."))
	}
	return outs
}

// session is one connection to the server under test.
type session struct {
	conn    *scriptConn
	done    chan string
	words   []string // command word of every complete line handed to the server
	pending []byte
}

func startSession(srv *pop3.Server, id int) *session {
	s := &session{conn: newScriptConn(), done: make(chan string, 1)}
	go func() {
		defer func() {
			if r := recover(); r != nil {
				fmt.Fprintf(os.Stderr, "session panic: %v\n%s\n", r, debug.Stack())
				s.conn.Close()
				s.done <- fmt.Sprint(r)
				return
			}
			s.done <- ""
		}()
		srv.VerifServe(id, s.conn)
	}()
	return s
}

func main() {
	zerolog.SetGlobalLevel(zerolog.Disabled)
	vh.Main(gen, exec)
}

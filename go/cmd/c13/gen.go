package main

import (
	"fmt"
	"sort"
	"strconv"
	"strings"

	"verifharness/vh"
)

var users = []string{"bob", "alice", "Bob", "x", "a+b", "bob@example.com", "7"}

// hostile line fragments for message sources
var headerLines = []string{"Subject: hi", "From: a@b", "To: c@d", "X-Dot: .", "Received: by x\r", ".Leading: dot", "..Two: dots", "X:\x00\xff\x80"}
var bodyLines = []string{"hello", ".", "..", "...", ".hidden", "", " ", "line with \r bare CR", "\rstarts with CR", "ends with CR\r", "8bit \xe9\xff\x00", "From here", "a.b.c", "....", ".\r"}

func genSource(g *vh.Gen, big bool) []byte {
	var b []byte
	eol := func() string {
		switch {
		case g.Chance(0.75):
			return "\r\n"
		case g.Chance(0.8):
			return "\n"
		default:
			return "\r\r\n"
		}
	}
	if g.Chance(0.04) {
		return nil // empty message
	}
	nh := g.Intn(4)
	for i := 0; i < nh; i++ {
		b = append(b, g.Pick(headerLines...)...)
		b = append(b, eol()...)
	}
	if g.Chance(0.85) {
		b = append(b, eol()...) // header/body separator
	}
	nb := g.Intn(7)
	for i := 0; i < nb; i++ {
		if big && i == nb/2 {
			n := 70000 + g.Intn(3000)
			c := byte('a' + g.Intn(26))
			if g.Chance(0.3) {
				b = append(b, '.')
			}
			for j := 0; j < n; j++ {
				b = append(b, c)
			}
		} else {
			b = append(b, g.Pick(bodyLines...)...)
		}
		if i < nb-1 || g.Chance(0.8) {
			b = append(b, eol()...)
		}
	}
	return b
}

func flipCase(g *vh.Gen, s string) string {
	switch {
	case g.Chance(0.6):
		return s
	case g.Chance(0.5):
		return strings.ToLower(s)
	}
	b := []byte(s)
	for i, c := range b {
		if g.Chance(0.4) && 'A' <= c && c <= 'Z' {
			b[i] = c + 32
		}
	}
	s = string(b)
	if g.Chance(0.15) {
		// the two non-ASCII runes whose upper case is ASCII
		s = strings.Replace(s, "i", "\u0131", 1)
		s = strings.Replace(s, "s", "\u017f", 1)
	}
	return s
}

func genNum(g *vh.Gen, n int) string {
	switch {
	case g.Chance(0.62) && n > 0:
		return strconv.Itoa(1 + g.Intn(n))
	case g.Chance(0.25):
		return strconv.Itoa(n + 1 + g.Intn(2))
	}
	return g.Pick("0", "-1", "+1", "01", "1x", "", "x", "2147483647", "2147483648", "-2147483648", "-2147483649",
		"4294967297", "99999999999999999999", "0000000000000000000000001", "+", "-", "1.0", "1_0", "１", "-0", "+0", " 1")
}

func eolCmd(g *vh.Gen) string {
	switch {
	case g.Chance(0.8):
		return "\r\n"
	case g.Chance(0.6):
		return "\n"
	case g.Chance(0.5):
		return "\r\r\n"
	}
	return " \r\n"
}

// one transaction-state command line (without terminator); n = snapshot size guess
func genTransLine(g *vh.Gen, n int) string {
	sp := " "
	if g.Chance(0.04) {
		sp = "  "
	}
	r := g.Intn(100)
	var l string
	switch {
	case r < 10:
		l = "STAT"
		if g.Chance(0.1) {
			l += sp + "1"
		}
	case r < 22:
		l = "LIST"
		if g.Chance(0.5) {
			l += sp + genNum(g, n)
			if g.Chance(0.07) {
				l += " 1"
			}
		}
	case r < 34:
		l = "UIDL"
		if g.Chance(0.5) {
			l += sp + genNum(g, n)
			if g.Chance(0.07) {
				l += " 1"
			}
		}
	case r < 56:
		l = "DELE"
		if !g.Chance(0.05) {
			l += sp + genNum(g, n)
		}
		if g.Chance(0.05) {
			l += " 2"
		}
	case r < 68:
		l = "RETR"
		if !g.Chance(0.05) {
			l += sp + genNum(g, n)
		}
	case r < 78:
		l = "TOP"
		if !g.Chance(0.05) {
			l += sp + genNum(g, n)
			if !g.Chance(0.08) {
				if g.Chance(0.8) {
					l += " " + strconv.Itoa(g.Intn(5))
				} else {
					l += " " + g.Pick("-1", "x", "", "2147483647", "2147483648", "+2", "00")
				}
			}
		}
	case r < 84:
		l = "RSET"
		if g.Chance(0.1) {
			l += " x"
		}
	case r < 88:
		l = "NOOP"
	case r < 91:
		l = "CAPA"
	case r < 94:
		l = g.Pick("USER bob", "PASS x", "APOP bob x", "STLS")
	case r < 97:
		l = g.Pick("", " ", " STAT", "XYZZY", "HELP", "STATx", "LIS", "\x00", "\xff\xfe", "QUITE", "Q", "S T A T")
	default:
		l = "QUIT"
		if g.Chance(0.2) {
			l += " now"
		}
	}
	if i := strings.IndexByte(l, ' '); i > 0 {
		return flipCase(g, l[:i]) + l[i:]
	}
	return flipCase(g, l)
}

func genAuthJunk(g *vh.Gen, user string) string {
	return g.Pick("STAT", "LIST", "DELE 1", "RETR 1", "NOOP", "RSET", "UIDL", "TOP 1 1", "USER", "USER ", "PASS", "PASS x",
		"APOP", "APOP "+user, "APOP "+user+" x y", "STLS", "CAPA", "", "FOO", "USER other", "user "+user, "APOP  x")
}

type evlist struct {
	evs []string
}

func (e *evlist) add(s string) { e.evs = append(e.evs, s) }

// client emits the bytes of lines with random chunking
func (e *evlist) client(g *vh.Gen, data string) {
	switch {
	case len(data) > 2 && g.Chance(0.06):
		k := 1 + g.Intn(len(data)-1)
		e.add("c" + vh.HS(data[:k]))
		e.add("c" + vh.HS(data[k:]))
	default:
		e.add("c" + vh.HS(data))
	}
}

func genSession(g *vh.Gen, idx int, big bool) (string, string, string) {
	flavour := "mem"
	if idx%2 == 1 {
		flavour = "file"
	}
	capN := 0
	maxKB := 0
	if g.Chance(0.12) {
		capN = 1 + g.Intn(5)
	}
	if flavour == "mem" && g.Chance(0.3) {
		// store-wide size limit of the memory store: limits over orders of magnitude
		maxKB = []int{1, 1, 1, 2, 4, 16, 128}[g.Intn(7)]
	}
	if capN > 0 || maxKB > 0 {
		flavour += ":" + strconv.Itoa(capN)
		if maxKB > 0 {
			flavour += ":" + strconv.Itoa(maxKB)
		}
	}
	// a delivery sized to push the store over its limit: evicts one / some / all of what it holds
	bigSrc := func() []byte {
		n := []int{90, 300, 600, 900, 1100, 2100, 5000, 20000, 140000}[g.Intn(9)]
		b := []byte("Subject: filler\r\n\r\n")
		for len(b) < n {
			b = append(b, "0123456789abcdefghijklmnopqrstuvwxyz0123456789ABCDEFGHIJKLMNOPQRSTUVWX\r\n"...)
		}
		return b[:n]
	}
	user := g.Pick(users...)
	n := g.Intn(9)
	if g.Chance(0.1) {
		n = 0
	}
	var boxes []string
	srcs := make([]string, n)
	bigAt := -1
	if big && n > 0 {
		bigAt = g.Intn(n)
	}
	for i := range srcs {
		srcs[i] = vh.H(genSource(g, i == bigAt))
	}
	if n > 0 {
		boxes = append(boxes, vh.HS(user)+":"+strings.Join(srcs, "."))
	}
	other := g.Pick("carol", "bob", "alice")
	otherAdded := false
	if other != user && g.Chance(0.4) {
		otherAdded = true
		boxes = append(boxes, vh.HS(other)+":"+vh.H(genSource(g, false))+"."+vh.H(genSource(g, false)))
	}
	init := "-"
	if len(boxes) > 0 {
		init = strings.Join(boxes, ";")
	}
	delivered := map[string]int{user: n}
	if otherAdded {
		delivered[other] = 2
	}

	e := &evlist{}
	external := func(p float64) {
		for g.Chance(p) {
			box := user
			if g.Chance(0.2) {
				box = other
			}
			r := g.Intn(10)
			if capN > 0 && g.Chance(0.5) {
				r = 0
			}
			if maxKB > 0 && g.Chance(0.6) {
				// deliveries elsewhere (or to the session's own mailbox) that the size limit answers with evictions
				tgt := g.Pick("zed", "zed", other, user)
				e.add("d" + vh.HS(tgt) + ":" + vh.H(bigSrc()))
				delivered[tgt]++
				continue
			}
			switch {
			case r < 4:
				e.add("d" + vh.HS(box) + ":" + vh.H(genSource(g, false)))
				delivered[box]++
			case r < 9:
				if delivered[box] > 0 {
					e.add("x" + vh.HS(box) + ":" + strconv.Itoa(g.Intn(delivered[box])))
				}
			default:
				e.add("p" + vh.HS(box))
			}
		}
	}
	// AUTHORIZATION
	for g.Chance(0.25) {
		e.client(g, genAuthJunk(g, user)+eolCmd(g))
	}
	external(0.1)
	loginUser := user
	if g.Chance(0.05) {
		loginUser = g.Pick(users...)
	}
	switch {
	case g.Chance(0.06):
		// no login at all
	case g.Chance(0.5):
		e.client(g, flipCase(g, "USER")+" "+loginUser+g.Pick("", "", "", " extra")+eolCmd(g))
		for g.Chance(0.1) {
			e.client(g, genAuthJunk(g, user)+eolCmd(g))
		}
		e.client(g, flipCase(g, "PASS")+g.Pick(" secret", "", " a b")+eolCmd(g))
	default:
		e.client(g, flipCase(g, "APOP")+" "+loginUser+" digest"+eolCmd(g))
	}
	// TRANSACTION
	ncmd := g.Intn(26)
	pipeline := ""
	extP := 0.12
	if maxKB > 0 {
		extP = 0.3
	}
	for i := 0; i < ncmd; i++ {
		external(extP)
		line := genTransLine(g, n) + eolCmd(g)
		if g.Chance(0.08) {
			pipeline += line // goes out together with the next line
			continue
		}
		e.client(g, pipeline+line)
		pipeline = ""
		if g.Chance(0.01) {
			e.add("w")
		}
	}
	if pipeline != "" {
		e.client(g, pipeline)
	}
	external(0.1)
	switch {
	case g.Chance(0.5):
		e.client(g, flipCase(g, "QUIT")+eolCmd(g))
	case g.Chance(0.15):
		e.client(g, g.Pick("QUIT", "QUIT\r", "DELE 1", "RS")) // no LF: dropped at EOF
	case g.Chance(0.1):
		e.add("w")
		e.client(g, g.Pick("QUIT", "DELE 1", "NOOP")+"\r\n")
	case g.Chance(0.25):
		e.add(g.Pick("t", "r"))
		if g.Chance(0.3) {
			e.client(g, "QUIT\r\n")
		}
	}
	external(0.1)
	// reconnect: a second session on the same server sees what the first one committed
	for g.Chance(0.25) {
		e.add("n")
		for g.Chance(0.15) {
			e.client(g, genAuthJunk(g, user)+eolCmd(g))
		}
		if g.Chance(0.85) {
			e.client(g, "APOP "+user+" x"+eolCmd(g))
			k := g.Intn(6)
			for i := 0; i < k; i++ {
				external(0.08)
				e.client(g, genTransLine(g, n)+eolCmd(g))
			}
		}
		if g.Chance(0.4) {
			e.client(g, "QUIT\r\n")
		}
	}
	evs := "-"
	if len(e.evs) > 0 {
		evs = strings.Join(e.evs, ",")
	}
	return flavour, init, evs
}

func gen(g *vh.Gen) {
	nsess := g.N(4000, 60000)
	for i := 0; i < nsess; i++ {
		big := i%100 == 7 || i%100 == 58
		fl, init, evs := genSession(g, i, big)
		g.Emit("sess", fl, init, evs)
	}
	// byte-level fuzz of the command front end: lines assembled from fragments that matter to
	// Split / ToUpper / ParseInt / TrimRight, after a login on a 3-message mailbox
	frags := []string{"LIST", "list", "UIDL", "DELE", "dele", "RETR", "TOP", "STAT", "RSET", "QUIT", "quit", "NOOP", "CAPA", "capa", "USER", "APOP",
		"l\u0131st", "l\u0131\u017ft", "qu\u0131t", "\u017ftat", "\u017fTAT", "\u212a", "\xc4", "\xb1", "\xc5", "\xbf", "\xc4\xb1", "\xff", "\x00", "\xe2\x84\xaa",
		" ", " ", " ", "  ", "\t", "\r", "\r\r", "1", "2", "3", "4", "0", "-1", "+2", "03", "2147483647", "2147483648", "-2147483648", "x", "1 1", "", "", "I", "i", "S", "s"}
	fuzzInit := vh.HS("bob") + ":" + vh.HS("A: 1\r\n\r\nx\r\n.y\r\n") + "." + vh.HS("B: 2\r\n\r\n") + "." + vh.HS("no header end\r\n..\r\n")
	for i := 0; i < g.N(800, 20000); i++ {
		evs := []string{"c" + vh.HS("APOP bob x\r\n")}
		nl := 1 + g.Intn(8)
		for j := 0; j < nl; j++ {
			var l string
			for k, nf := 0, 1+g.Intn(4); k < nf; k++ {
				l += g.Pick(frags...)
				if g.Chance(0.5) {
					l += " "
				}
			}
			if g.Chance(0.02) {
				l = "LIST " + strings.Repeat("0", 5000+g.Intn(4000)) + "2" // longer than the bufio buffer
			}
			evs = append(evs, "c"+vh.HS(l+g.Pick("\r\n", "\r\n", "\n", "\r\r\n")))
		}
		if g.Chance(0.5) {
			evs = append(evs, "c"+vh.HS("LIST\r\n"), "c"+vh.HS("QUIT\r\n"))
		}
		fl := "mem"
		if i%2 == 1 {
			fl = "file"
		}
		g.Emit("sess", fl, fuzzInit, strings.Join(evs, ","))
	}
	// raw byte streams (kind bytes; model side = Coq's run_stream):
	// (a) valid dialogues cut at every byte
	dialogues := []string{
		"USER bob\r\nPASS x\r\nSTAT\r\nLIST\r\nUIDL 2\r\nRETR 1\r\nDELE 1\r\nTOP 3 1\r\nQUIT\r\n",
		"APOP bob x\r\nDELE 2\r\nDELE 3\r\nRSET\r\nDELE 3\r\nLIST\r\nQUIT\r\n",
		"apop bob x\nCAPA\ndele 1\nqu\u0131t\n",
		"QUIT\r\nUSER bob\r\n",
	}
	nd := g.N(2, len(dialogues))
	for di := 0; di < nd; di++ {
		d := dialogues[di]
		for k := 0; k <= len(d); k++ {
			fl := "mem"
			if (di+k)%2 == 1 {
				fl = "file"
			}
			g.Emit("bytes", fl, fuzzInit, vh.HS(d[:k]))
		}
	}
	// (b) garbage: random bytes with the bytes that matter over-represented, overlong lines
	alpha := []string{"\n", "\n", "\r\n", "\r", " ", " ", "\x00", "\xff", "\x80", "\xc4\xb1", "\xc5\xbf", "\xc4", "A", "Q", "q", "U", "I", "T", "u", "i", "t",
		"D", "E", "L", "e", "l", "s", "S", "R", "1", "2", "3", "0", "-", "+", "9", ".", "\t",
		"QUIT", "quit", "DELE 1", "APOP bob x\r\n", "USER bob\n", "PASS\n", "RETR 2\n", "LIST\n", "STAT\r\n"}
	for i := 0; i < g.N(600, 20000); i++ {
		var b strings.Builder
		for j, n := 0, g.Intn(60); j < n; j++ {
			if g.Chance(0.08) {
				b.WriteByte(byte(g.Intn(256)))
			} else {
				b.WriteString(g.Pick(alpha...))
			}
		}
		if g.Chance(0.03) {
			if g.Chance(0.2) {
				// a long digit string: the model's ParseInt is exact bignum arithmetic, keep it short of 75 KB
				b.WriteString("LIST " + strings.Repeat("9", 1000+g.Intn(2000)))
			} else {
				b.WriteString(strings.Repeat(g.Pick("x", "\x00", " ", "\xc4\xb1"), 5000+g.Intn(70000)))
			}
			if g.Chance(0.5) {
				b.WriteString("\nSTAT\n")
			}
		}
		fl := "mem"
		if i%2 == 1 {
			fl = "file"
		}
		g.Emit("bytes", fl, fuzzInit, vh.HS(b.String()))
	}
	// scripted connections (kind net; model side = Coq's run_net): a pause at every byte offset of
	// valid dialogues, all three endings; random cuts of dialogues and garbage into 1-4 chunks
	fins := []string{"eof", "idle", "err"}
	nn := 0
	for di := 0; di < g.N(2, len(dialogues)); di++ {
		d := dialogues[di]
		for _, fin := range fins {
			g.Emit("net", []string{"mem", "file"}[nn%2], fuzzInit, vh.HS(d), fin)
			nn++
		}
		for k := 0; k <= len(d); k++ {
			g.Emit("net", []string{"mem", "file"}[nn%2], fuzzInit, vh.HS(d[:k])+","+vh.HS(d[k:]), fins[nn%3])
			nn++
		}
	}
	for i := 0; i < g.N(300, 10000); i++ {
		var d string
		if g.Chance(0.7) {
			d = g.Pick(dialogues...)
		} else {
			var b strings.Builder
			for j, n := 0, g.Intn(40); j < n; j++ {
				b.WriteString(g.Pick(alpha...))
			}
			d = b.String()
		}
		nc := 1 + g.Intn(4)
		cuts := make([]int, 0, nc+1)
		for j := 0; j < nc-1; j++ {
			cuts = append(cuts, g.Intn(len(d)+1))
		}
		sort.Ints(cuts)
		cuts = append(cuts, len(d))
		var cs []string
		prev := 0
		for _, c := range cuts {
			cs = append(cs, vh.HS(d[prev:c]))
			prev = c
		}
		chunks := strings.Join(cs, ",")
		if g.Chance(0.03) {
			chunks = "-"
		}
		g.Emit("net", []string{"mem", "file"}[i%2], fuzzInit, chunks, g.Pick(fins...))
	}
	// STLS / CAPA with a real TLS client, several connections to ONE server (kind tls; Coq's tsessions)
	tlsInit := vh.HS("bob") + ":" + vh.HS("A: 1\r\n\r\nx\r\n") + "." + vh.HS("B: 2\r\n\r\n.y\r\n") + "." + vh.HS("c\r\n")
	tlsCmds := []string{"CAPA", "CAPA", "STLS", "STLS", "STLS", "stls", "STLS x", "USER bob", "PASS x", "APOP bob x", "APOP bob x", "STAT", "LIST", "UIDL", "DELE 1", "DELE 2",
		"RSET", "NOOP", "RETR 1", "RETR 2", "TOP 2 1", "QUIT", "XYZ", "", "LIST 9", "USER alice"}
	for i := 0; i < g.N(150, 6000); i++ {
		en := "1"
		if g.Chance(0.15) {
			en = "0"
		}
		ns := 1 + g.Intn(3)
		var sessions []string
		for si := 0; si < ns; si++ {
			var steps []string
			nst := g.Intn(7)
			for j := 0; j < nst; j++ {
				var b strings.Builder
				for k, nl := 0, 1+g.Intn(3); k < nl; k++ {
					b.WriteString(g.Pick(tlsCmds...))
					b.WriteString(g.Pick("\r\n", "\r\n", "\n"))
					if k == 0 && g.Chance(0.6) {
						break // most segments carry one line
					}
				}
				d := b.String()
				hs := "1"
				if g.Chance(0.12) {
					hs = "0"
				}
				if len(d) > 3 && g.Chance(0.08) {
					k := 1 + g.Intn(len(d)-2)
					steps = append(steps, vh.HS(d[:k])+":"+hs, vh.HS(d[k:])+":"+hs)
				} else {
					steps = append(steps, vh.HS(d)+":"+hs)
				}
			}
			if len(steps) == 0 {
				sessions = append(sessions, "-")
			} else {
				sessions = append(sessions, strings.Join(steps, ","))
			}
		}
		g.Emit("tls", en, tlsInit, strings.Join(sessions, ";"))
	}
	// overlapping connections to one server (kind overlap): A logs in and stays, B logs in to the same
	// mailbox, C to another; every command is owed a reply
	ovInit := vh.HS("bob") + ":" + vh.HS("A: 1\r\n\r\nx\r\n") + "." + vh.HS("B: 2\r\n\r\ny\r\n") + ";" + vh.HS("carol") + ":" + vh.HS("c\r\n")
	ovCmds := []string{"APOP bob x", "APOP bob x", "APOP carol x", "USER bob", "USER carol", "PASS x", "STAT", "LIST", "DELE 1", "DELE 2", "RSET", "UIDL", "NOOP", "QUIT", "RETR 1", "CAPA"}
	for i := 0; i < g.N(120, 5000); i++ {
		var steps []string
		if i%3 == 0 {
			// the canonical overlap: same mailbox twice, then a third login elsewhere
			steps = append(steps, "a:"+vh.HS("APOP bob x\r\n"), "b:"+vh.HS(g.Pick("APOP bob x\r\n", "USER bob\r\n")), "b:"+vh.HS("PASS x\r\n"),
				"c:"+vh.HS("APOP "+g.Pick("carol", "bob", "zed")+" x\r\n"), "c:"+vh.HS("STAT\r\n"), "a:"+vh.HS("STAT\r\n"))
		}
		for j, n := 0, g.Intn(12); j < n; j++ {
			steps = append(steps, g.Pick("a", "a", "b", "b", "c", "d")+":"+vh.HS(g.Pick(ovCmds...)+"\r\n"))
		}
		if len(steps) == 0 {
			steps = []string{"a:" + vh.HS("NOOP\r\n")}
		}
		g.Emit("overlap", []string{"mem", "file"}[i%2], ovInit, strings.Join(steps, ","))
	}
	// exhaustive small dialogues: every pair of transaction commands on a 2-message mailbox
	cmds := []string{"STAT", "LIST", "LIST 1", "LIST 2", "LIST 3", "UIDL", "UIDL 2", "DELE 1", "DELE 2", "DELE 0", "RETR 1", "RETR 3",
		"TOP 2 1", "TOP 1 0", "RSET", "NOOP", "QUIT", "CAPA", "USER a", ""}
	src := []string{"Subject: one\r\n\r\n.dot\r\nbody\r\n", "A: b\r\n\r\nx\r\n.\r\ny"}
	init := vh.HS("bob") + ":" + vh.HS(src[0]) + "." + vh.HS(src[1])
	k := 0
	for _, a := range cmds {
		for _, b := range cmds {
			for _, end := range []string{"", "QUIT"} {
				evs := []string{"c" + vh.HS("APOP bob x\r\n"), "c" + vh.HS(a+"\r\n"), "c" + vh.HS(b+"\r\n"), "c" + vh.HS("LIST\r\n")}
				if end != "" {
					evs = append(evs, "c"+vh.HS(end+"\r\n"))
				}
				fl := "mem"
				if k%2 == 1 {
					fl = "file"
				}
				k++
				if g.Tier != "thorough" && k%3 != 0 {
					continue
				}
				g.Emit("sess", fl, init, strings.Join(evs, ","))
			}
		}
	}
	_ = fmt.Sprint
}

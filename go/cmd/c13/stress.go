package main

import (
	"bytes"
	"fmt"
	"math/rand"
	"strconv"
	"strings"
	"sync"
	"time"

	"github.com/inbucket/inbucket/v3/pkg/config"
	"github.com/inbucket/inbucket/v3/pkg/server/pop3"
	"verifharness/vh"
)

// stress <flavour> <seed> <nmsgs> <rounds>: one session issues commands while three other
// goroutines deliver to / remove from / purge / read the same mailbox. Built with -race by
// the check. The replies cannot be predicted (real interleaving), so the property is
// checked on them directly: the listings are the login snapshot minus the session's own
// marks whatever the others do; RETR returns the stored bytes (or, file store only, the
// unterminated -ERR when the message is gone); QUIT removes the marked messages, and no
// message that nobody removed disappears. A supporting search, not part of the proof.
func execStress(in []string) []string {
	if len(in) != 4 {
		return []string{"bad:args"}
	}
	seed := int64(vh.AtoI(in[1]))
	nmsgs, rounds := vh.AtoI(in[2]), vh.AtoI(in[3])
	rng := rand.New(rand.NewSource(seed))
	st, cleanup := newStore(in[0])
	defer cleanup()
	w := &world{store: st, handles: map[string]map[string]int{}, ids: map[string][]string{}, names: map[string]bool{}}
	mkSrc := func(r *rand.Rand) []byte {
		var b bytes.Buffer
		b.WriteString("Subject: s\r\n\r\n")
		for i, n := 0, r.Intn(12); i < n; i++ {
			b.WriteString([]string{"hello", ".", "..x", "", "line " + strconv.Itoa(r.Intn(1000)), strings.Repeat("y", r.Intn(300))}[r.Intn(6)])
			b.WriteString("\r\n")
		}
		return b.Bytes()
	}
	var mu sync.Mutex // protects w's handle tables and removed
	src := map[string][]byte{}
	removed := map[string]bool{}
	for i := 0; i < nmsgs; i++ {
		s := mkSrc(rng)
		w.deliver("bob", s)
		src[w.ids["bob"][i]] = s
	}
	srv, err := pop3.NewServer(config.POP3{Domain: "verif", Timeout: 300 * time.Second}, st)
	if err != nil {
		panic(err)
	}
	ses := startSession(srv, 1)
	if !ses.conn.waitIdle() {
		return []string{"bad:wedged-greeting"}
	}
	send := func(line string) (string, bool) {
		n := len(ses.conn.replyUnits())
		if !ses.conn.feed([]byte(line + "\r\n")) {
			return "", false
		}
		u := ses.conn.replyUnits()
		if len(u) != n+1 {
			return "", false
		}
		return string(u[n]), true
	}
	if r, ok := send("APOP bob x"); !ok || !strings.HasPrefix(r, "+OK") {
		return []string{"bad:login"}
	}
	var snapIDs []string // the mailbox at login (nobody else is active yet)
	if ms, err := st.GetMessages("bob"); err == nil {
		for _, m := range ms {
			snapIDs = append(snapIDs, m.ID())
		}
	}
	marked := make([]bool, len(snapIDs))

	// the others
	var wg sync.WaitGroup
	stop := make(chan struct{})
	for gi := 0; gi < 3; gi++ {
		wg.Add(1)
		go func(r *rand.Rand) {
			defer wg.Done()
			for {
				select {
				case <-stop:
					return
				default:
				}
				switch k := r.Intn(20); {
				case k < 6:
					s := mkSrc(r)
					mu.Lock()
					w.deliver("bob", s)
					mu.Unlock()
				case k < 12:
					mu.Lock()
					ids := w.ids["bob"]
					var id string
					if len(ids) > 0 {
						id = ids[r.Intn(len(ids))]
					}
					mu.Unlock()
					if id != "" && st.RemoveMessage("bob", id) == nil {
						mu.Lock()
						removed[id] = true
						mu.Unlock()
					}
				case k < 13:
					mu.Lock()
					ids := append([]string(nil), w.ids["bob"]...)
					_ = st.PurgeMessages("bob")
					for _, id := range ids {
						removed[id] = true
					}
					mu.Unlock()
				default:
					if ms, err := st.GetMessages("bob"); err == nil && len(ms) > 0 {
						m := ms[r.Intn(len(ms))]
						if rd, err := m.Source(); err == nil {
							buf := make([]byte, 64)
							_, _ = rd.Read(buf)
							_ = rd.Close()
						}
					}
				}
			}
		}(rand.New(rand.NewSource(seed*7 + int64(gi))))
	}
	fail := ""
	check := func(cond bool, why string) {
		if !cond && fail == "" {
			fail = why
		}
	}
	expectRows := func(val func(i int) string) string {
		var b strings.Builder
		for i := range snapIDs {
			if !marked[i] {
				fmt.Fprintf(&b, "%d %s\r\n", i+1, val(i))
			}
		}
		b.WriteString(".\r\n")
		return b.String()
	}
	body := func(r string) string {
		if i := strings.Index(r, "\r\n"); i >= 0 {
			return r[i+2:]
		}
		return ""
	}
	for i := 0; i < rounds && fail == ""; i++ {
		k := 1 + rng.Intn(len(snapIDs)+1)
		if len(snapIDs) == 0 {
			k = 1
		}
		switch c := rng.Intn(10); {
		case c < 2:
			r, ok := send("UIDL")
			check(ok && strings.HasPrefix(r, "+OK"), "uidl-status")
			check(body(r) == expectRows(func(i int) string { return snapIDs[i] }), "uidl-not-snapshot")
		case c < 4:
			r, ok := send("LIST")
			check(ok && strings.HasPrefix(r, "+OK"), "list-status")
			check(body(r) == expectRows(func(i int) string { return strconv.Itoa(len(src[snapIDs[i]])) }), "list-not-snapshot")
		case c < 5:
			r, ok := send("STAT")
			cnt, size := 0, 0
			for i := range snapIDs {
				if !marked[i] {
					cnt++
					size += len(src[snapIDs[i]])
				}
			}
			check(ok && strings.HasPrefix(r, fmt.Sprintf("+OK %d %d\r\n", cnt, size)), "stat-not-snapshot")
		case c < 8:
			r, ok := send("RETR " + strconv.Itoa(k))
			if k > len(snapIDs) {
				check(ok && strings.HasPrefix(r, "-ERR"), "retr-range")
				break
			}
			want := src[snapIDs[k-1]]
			check(ok && strings.HasPrefix(r, fmt.Sprintf("+OK %d ", len(want))), "retr-status")
			b := body(r)
			if strings.HasPrefix(b, "-ERR") && !strings.Contains(in[0], "mem") {
				// removal is permanent: if the message is in the mailbox now, it was there all along
				gone := true
				if ms, err := st.GetMessages("bob"); err == nil {
					for _, m := range ms {
						if m.ID() == snapIDs[k-1] {
							gone = false
						}
					}
				}
				check(gone, "retr-failed-for-present-message")
				break
			}
			// un-stuff and compare
			var got bytes.Buffer
			lines := strings.Split(b, "\r\n")
			check(len(lines) >= 2 && lines[len(lines)-1] == "" && lines[len(lines)-2] == ".", "retr-unterminated")
			if len(lines) >= 2 {
				for _, l := range lines[:len(lines)-2] {
					if strings.HasPrefix(l, ".") {
						l = l[1:]
					}
					got.WriteString(l + "\r\n")
				}
			}
			check(bytes.Equal(got.Bytes(), want), "retr-content")
		case c < 9:
			r, ok := send("DELE " + strconv.Itoa(k))
			if k > len(snapIDs) || marked[k-1] {
				check(ok && strings.HasPrefix(r, "-ERR"), "dele-status")
			} else {
				check(ok && strings.HasPrefix(r, "+OK"), "dele-status")
				marked[k-1] = true
			}
		default:
			r, ok := send("RSET")
			check(ok && strings.HasPrefix(r, "+OK"), "rset-status")
			for i := range marked {
				marked[i] = false
			}
		}
	}
	close(stop)
	wg.Wait()
	// the store just before QUIT
	before := map[string]bool{}
	if ms, err := st.GetMessages("bob"); err == nil {
		for _, m := range ms {
			before[m.ID()] = true
		}
	}
	if r, ok := send("QUIT"); !ok || !strings.HasPrefix(r, "+OK") {
		check(false, "quit-status")
	}
	ses.conn.sendEOF()
	select {
	case p := <-ses.done:
		check(p == "", "panic:"+p)
	case <-time.After(20 * time.Second):
		check(false, "wedged-at-end")
	}
	after := map[string]bool{}
	if ms, err := st.GetMessages("bob"); err == nil {
		for _, m := range ms {
			after[m.ID()] = true
		}
	}
	isMarked := map[string]bool{}
	for i, id := range snapIDs {
		if marked[i] {
			isMarked[id] = true
			check(!after[id], "marked-message-survived-quit")
		}
	}
	for id := range before {
		if !isMarked[id] {
			check(after[id], "unmarked-message-removed-by-quit")
		}
	}
	for id := range after {
		check(before[id], "message-appeared-during-quit")
	}
	if fail != "" {
		return []string{"bad:" + fail}
	}
	return []string{"ok"}
}

package main

import (
	"io"
	"net"
	"sync"
	"time"
)

// scriptConn is the server's end of a scripted connection. It gives the harness exact
// framing without timeouts: the server is handed one line per Read, and everything it
// writes between being handed a complete line and asking for more input (or closing) is
// the reply unit of that line. Writes never block.
type scriptConn struct {
	mu       sync.Mutex
	cond     *sync.Cond
	in       []byte   // client bytes not yet read by the server
	eof      bool     // client side gone
	closed   bool     // server closed the connection
	waiting  bool     // server is blocked in Read with nothing to read
	started  bool     // first Read seen (greeting boundary)
	lineDone bool     // the last Read handed out bytes ending in LF
	wfail    bool     // writes fail
	out      []byte   // bytes written since the last boundary
	units    [][]byte // completed reply units
	expired  bool     // watchdog fired
	readErr  error    // Read fails with this error once the input is drained
	scripted bool     // the whole client side is scripted up front (kind net)
	later    [][]byte // scripted: chunks that arrive after a pause each (one timed-out Read per pause)
	fin      string   // scripted: how the connection ends once drained: eof | idle | err
	errReads int      // failed Reads handed out at the end of the script / after failRead
	spun     bool     // the server kept reading after repeated read errors: it was stopped with EOF
	patience time.Duration // how long waitIdle waits for the server (0 = 20 s)
}

func newScriptConn() *scriptConn {
	c := &scriptConn{}
	c.cond = sync.NewCond(&c.mu)
	return c
}

func (c *scriptConn) boundary() {
	if !c.wfail {
		c.units = append(c.units, c.out)
	}
	c.out = nil
}

func (c *scriptConn) Read(p []byte) (int, error) {
	c.mu.Lock()
	defer c.mu.Unlock()
	if !c.started {
		c.started = true
		c.boundary()
	} else if c.lineDone {
		c.lineDone = false
		c.boundary()
	}
	if c.scripted && len(c.in) == 0 && !c.closed {
		// Deadlines are not clocks here: a read times out exactly where the script says the client pauses.
		if len(c.later) > 0 {
			c.in, c.later = c.later[0], c.later[1:]
			return 0, timeoutErr{}
		}
		if c.fin == "idle" || c.fin == "err" {
			// a server that ignores read errors would spin here: stop it after a few rounds
			c.errReads++
			if c.errReads > 3 {
				c.spun = true
				return 0, io.EOF
			}
			if c.fin == "idle" {
				return 0, timeoutErr{}
			}
			return 0, brokenErr{}
		}
		return 0, io.EOF
	}
	for len(c.in) == 0 && !c.eof && !c.closed && c.readErr == nil {
		c.waiting = true
		c.cond.Broadcast()
		c.cond.Wait()
	}
	c.waiting = false
	if c.closed {
		return 0, net.ErrClosed
	}
	if len(c.in) == 0 {
		if c.readErr != nil {
			c.errReads++
			if c.errReads > 3 {
				c.spun = true
				return 0, io.EOF
			}
			return 0, c.readErr
		}
		return 0, io.EOF
	}
	n := len(c.in)
	for i, b := range c.in {
		if b == '\n' {
			n = i + 1
			break
		}
	}
	if n > len(p) {
		n = len(p)
	}
	copy(p, c.in[:n])
	c.lineDone = c.in[n-1] == '\n'
	c.in = c.in[n:]
	return n, nil
}

func (c *scriptConn) Write(p []byte) (int, error) {
	c.mu.Lock()
	defer c.mu.Unlock()
	if c.closed {
		return 0, net.ErrClosed
	}
	if c.wfail {
		return 0, io.ErrClosedPipe
	}
	c.out = append(c.out, p...)
	return len(p), nil
}

func (c *scriptConn) Close() error {
	c.mu.Lock()
	defer c.mu.Unlock()
	if c.closed {
		return nil
	}
	if !c.started || c.lineDone || len(c.out) > 0 {
		c.started = true
		c.lineDone = false
		c.boundary()
	}
	c.closed = true
	c.cond.Broadcast()
	return nil
}

type fakeAddr string

func (a fakeAddr) Network() string { return "tcp" }
func (a fakeAddr) String() string  { return string(a) }

func (c *scriptConn) LocalAddr() net.Addr                { return fakeAddr("127.0.0.1:1100") }
func (c *scriptConn) RemoteAddr() net.Addr               { return fakeAddr("127.0.0.1:40000") }
func (c *scriptConn) SetDeadline(t time.Time) error      { return nil }
func (c *scriptConn) SetReadDeadline(t time.Time) error  { return nil }
func (c *scriptConn) SetWriteDeadline(t time.Time) error { return nil }

// client side ---------------------------------------------------------------

// feed hands bytes to the server and waits until it has consumed them and is idle again
// (or has closed). Returns false when the server neither closed nor asked for more input
// within the watchdog period (a wedged session).
func (c *scriptConn) feed(b []byte) bool {
	c.mu.Lock()
	c.in = append(c.in, b...)
	c.cond.Broadcast()
	c.mu.Unlock()
	return c.waitIdle()
}

func (c *scriptConn) waitIdle() bool {
	d := c.patience
	if d == 0 {
		d = 20 * time.Second
	}
	c.mu.Lock()
	c.expired = false
	c.mu.Unlock()
	t := time.AfterFunc(d, func() {
		c.mu.Lock()
		c.expired = true
		c.cond.Broadcast()
		c.mu.Unlock()
	})
	defer t.Stop()
	c.mu.Lock()
	defer c.mu.Unlock()
	for !(c.waiting && len(c.in) == 0) && !c.closed && !c.expired {
		c.cond.Wait()
	}
	return !c.expired
}

func (c *scriptConn) sendEOF() {
	c.mu.Lock()
	c.eof = true
	c.cond.Broadcast()
	c.mu.Unlock()
}

type timeoutErr struct{}

func (timeoutErr) Error() string   { return "i/o timeout" }
func (timeoutErr) Timeout() bool   { return true }
func (timeoutErr) Temporary() bool { return true }

// brokenErr is a read error that is neither EOF nor a timeout.
type brokenErr struct{}

func (brokenErr) Error() string   { return "read: connection reset by peer" }
func (brokenErr) Timeout() bool   { return false }
func (brokenErr) Temporary() bool { return false }

// newScriptedConn: the client's bytes arrive in chunks separated by pauses longer than the idle
// timeout; after the last chunk the connection ends by EOF, silence or a read error.
func newScriptedConn(chunks [][]byte, fin string) *scriptConn {
	c := newScriptConn()
	c.scripted, c.fin = true, fin
	if len(chunks) > 0 {
		c.in, c.later = chunks[0], chunks[1:]
	}
	return c
}

// failRead makes the server's pending Read fail and waits for the session to end.
func (c *scriptConn) failRead(err error) bool {
	c.mu.Lock()
	c.readErr = err
	c.waiting = false
	c.cond.Broadcast()
	c.mu.Unlock()
	return c.waitIdle()
}

func (c *scriptConn) breakWrites() {
	c.mu.Lock()
	c.wfail = true
	c.mu.Unlock()
}

func (c *scriptConn) hasSpun() bool {
	c.mu.Lock()
	defer c.mu.Unlock()
	return c.spun
}

func (c *scriptConn) isClosed() bool {
	c.mu.Lock()
	defer c.mu.Unlock()
	return c.closed
}

func (c *scriptConn) replyUnits() [][]byte {
	c.mu.Lock()
	defer c.mu.Unlock()
	return append([][]byte(nil), c.units...)
}

package main

import (
	"bufio"
	"bytes"
	"crypto/ecdsa"
	"crypto/elliptic"
	"crypto/rand"
	"crypto/tls"
	"crypto/x509"
	"crypto/x509/pkix"
	"encoding/pem"
	"fmt"
	"io"
	"math/big"
	"net"
	"os"
	"runtime/debug"
	"sort"
	"strconv"
	"strings"
	"sync"
	"time"

	"github.com/inbucket/inbucket/v3/pkg/config"
	"github.com/inbucket/inbucket/v3/pkg/server/pop3"
	"verifharness/vh"
)

// tls <enabled 0|1> <init> <sessions>: several connections, one after the other, to ONE pop3.Server
// (so that the server-level tlsState shows) with a real TLS client.
//
//	sessions = sess;sess;..     sess = step,step,..     step = <hex>:<hs>
//
// A step is one client Write (one segment); the client then reads one reply per complete line the
// server executes. When a line is STLS and the answer is +OK the client performs a real handshake
// (hs=1) or sends plaintext instead of a ClientHello (hs=0); the rest of that segment is then no
// longer expected to be answered (the server drops it with its old bufio.Reader). Later steps
// travel under TLS once upgraded. The session ends with the client closing the connection.
var (
	certOnce          sync.Once
	certFile, keyFile string
	certErr           error
)

func selfSigned() (string, string, error) {
	certOnce.Do(func() {
		dir := os.Getenv("VERIF_WORKDIR")
		if dir == "" {
			dir = os.TempDir()
		}
		dir, certErr = os.MkdirTemp(dir, "c13tls")
		if certErr != nil {
			return
		}
		key, err := ecdsa.GenerateKey(elliptic.P256(), rand.Reader)
		if err != nil {
			certErr = err
			return
		}
		tmpl := &x509.Certificate{
			SerialNumber: big.NewInt(1), Subject: pkix.Name{CommonName: "localhost"},
			NotBefore: time.Now().Add(-time.Hour), NotAfter: time.Now().Add(24 * time.Hour),
			KeyUsage: x509.KeyUsageDigitalSignature, ExtKeyUsage: []x509.ExtKeyUsage{x509.ExtKeyUsageServerAuth},
		}
		der, err := x509.CreateCertificate(rand.Reader, tmpl, tmpl, &key.PublicKey, key)
		if err != nil {
			certErr = err
			return
		}
		kb, err := x509.MarshalECPrivateKey(key)
		if err != nil {
			certErr = err
			return
		}
		certFile, keyFile = dir+"/cert.pem", dir+"/key.pem"
		if certErr = os.WriteFile(certFile, pem.EncodeToMemory(&pem.Block{Type: "CERTIFICATE", Bytes: der}), 0o600); certErr != nil {
			return
		}
		certErr = os.WriteFile(keyFile, pem.EncodeToMemory(&pem.Block{Type: "EC PRIVATE KEY", Bytes: kb}), 0o600)
	})
	return certFile, keyFile, certErr
}

func execTLS(in []string) []string {
	if len(in) != 3 {
		return []string{"bad-args"}
	}
	st, cleanup := newStore("mem")
	defer cleanup()
	w := &world{store: st, handles: map[string]map[string]int{}, ids: map[string][]string{}, names: map[string]bool{}}
	if in[1] != "-" {
		for _, box := range split(in[1], ";") {
			i := strings.IndexByte(box, ':')
			if i < 0 {
				continue
			}
			w.names[box[:i]] = true
			for _, s := range split(box[i+1:], ".") {
				w.deliver(vh.US(box[:i]), vh.U(s))
			}
		}
	}
	cfg := config.POP3{Domain: "verif", Timeout: 30 * time.Second}
	if in[0] == "1" {
		cert, key, err := selfSigned()
		if err != nil {
			panic(err)
		}
		cfg.TLSEnabled, cfg.TLSCert, cfg.TLSPrivKey = true, cert, key
	}
	srv, err := pop3.NewServer(cfg, st)
	if err != nil {
		panic(err)
	}
	var outs []string
	for si, sess := range strings.Split(in[2], ";") {
		if si > 0 {
			outs = append(outs, "N")
		}
		r, bad := tlsSession(srv, w, si+1, sess)
		if bad != "" {
			return strings.Split(bad, " ")
		}
		outs = append(outs, r...)
	}
	srv.Drain()
	var names []string
	for n := range w.names {
		names = append(names, n)
	}
	sort.Strings(names)
	for _, n := range names {
		msgs, _ := st.GetMessages(vh.US(n))
		rows := make([]string, len(msgs))
		for i, m := range msgs {
			rows[i] = w.handleOf(m.ID()) + ":" + strconv.FormatInt(m.Size(), 10)
		}
		outs = append(outs, "S"+n+"="+strings.Join(rows, "."))
	}
	return outs
}

func tlsSession(srv *pop3.Server, w *world, id int, sess string) ([]string, string) {
	cli, srvEnd := net.Pipe()
	done := make(chan string, 1)
	go func() {
		defer func() {
			if r := recover(); r != nil {
				fmt.Fprintf(os.Stderr, "session panic: %v\n%s\n", r, debug.Stack())
				srvEnd.Close()
				done <- fmt.Sprint(r)
				return
			}
			done <- ""
		}()
		srv.VerifServe(id, srvEnd)
	}()
	var conn net.Conn = cli
	_ = cli.SetDeadline(time.Now().Add(20 * time.Second))
	rd := bufio.NewReader(conn)
	var outs []string
	over := false // the server has closed / the connection is unusable
	var pending []byte // an incomplete line the server's reader still holds
	readLine := func() ([]byte, bool) {
		l, err := rd.ReadBytes('\n')
		if err != nil {
			return l, false
		}
		return l, true
	}
	// one reply: status line and, for the multi-line commands answered +OK, the block up to "."
	readReply := func(word string, multi bool) ([]byte, bool) {
		l, ok := readLine()
		if !ok {
			return l, false
		}
		unit := append([]byte(nil), l...)
		if multi && bytes.HasPrefix(l, []byte("+OK")) {
			for {
				b, ok := readLine()
				unit = append(unit, b...)
				if !ok {
					return unit, false
				}
				if bytes.Equal(b, []byte(".\r\n")) {
					break
				}
			}
		}
		return unit, true
	}
	g, ok := readReply("", false)
	if !ok {
		return nil, "WEDGED"
	}
	outs = append(outs, w.project("", g))
	if sess != "-" && sess != "" {
	steps:
		for _, step := range strings.Split(sess, ",") {
			if over {
				break
			}
			i := strings.IndexByte(step, ':')
			data, hs := vh.U(step[:i]), step[i+1:] == "1"
			if _, err := conn.Write(data); err != nil {
				over = true
				break
			}
			// the complete lines of this segment (a partial line at its end joins the next segment)
			var lines [][]byte
			rest := append(append([]byte(nil), pending...), data...)
			for {
				k := bytes.IndexByte(rest, '\n')
				if k < 0 {
					break
				}
				lines = append(lines, rest[:k+1])
				rest = rest[k+1:]
			}
			pending = rest
			for li, l := range lines {
				_ = li
				word := commandWord(l)
				nargs := len(strings.Split(strings.TrimRight(string(l), "\r\n"), " ")) - 1
				multi := word == "CAPA" || ((word == "LIST" || word == "UIDL") && nargs == 0) || word == "RETR" || word == "TOP"
				unit, ok := readReply(word, multi)
				if !ok {
					over = true
					break steps
				}
				tok := w.project(word, unit)
				if word == "CAPA" && strings.HasSuffix(tok, "/C") {
					if bytes.Contains(unit, []byte("\r\nSTLS\r\n")) {
						tok += "1"
					} else {
						tok += "0"
					}
				}
				outs = append(outs, tok)
				if word == "QUIT" && bytes.HasPrefix(unit, []byte("+OK")) {
					over = true
					break steps
				}
				if word == "STLS" && bytes.HasPrefix(unit, []byte("+OK")) {
					pending = nil
					if hs {
						tc := tls.Client(conn, &tls.Config{InsecureSkipVerify: true})
						if err := tc.Handshake(); err != nil {
							outs = append(outs, "HANDSHAKE-FAILED")
							over = true
							break steps
						}
						conn = tc
						rd = bufio.NewReader(conn)
					} else {
						// no ClientHello but plaintext: the server's handshake fails
						_, _ = conn.Write([]byte("NOOP\r\n"))
						all, _ := io.ReadAll(rd)
						if k := bytes.Index(all, []byte("-ERR")); k >= 0 {
							outs = append(outs, "-/-/-")
							all = all[k:]
							if bytes.Count(all, []byte("\r\n")) > 1 {
								outs = append(outs, "EXTRA"+vh.H(all))
							}
						} else if len(all) > 0 {
							outs = append(outs, "GARBAGE"+vh.H(all))
						}
						over = true
					}
					continue steps // what was pipelined behind the STLS line gets no answer
				}
			}
		}
	}
	conn.Close()
	cli.Close()
	select {
	case p := <-done:
		if p != "" {
			return nil, "PANIC " + vh.HS(p)
		}
	case <-time.After(20 * time.Second):
		return nil, "WEDGED-AT-END"
	}
	return outs, ""
}

// Driver for C17 (extension hooks decide exactly what they say; a broken script never loses
// mail). A Lua script is generated from rule tables whose outcome CLASS is known by construction
// (allow / deny(code,msg) / defer / no answer realised as nil, wrong-typed values, runtime
// errors, partial rewrites followed by an error; message rewrites of any subset of the four
// fields), installed with luahost.NewFromReader, and SMTP dialogues are played against it:
//
//	lua <cfg x11> <stream> <script> <mailrules> <rcptrules> <msgrules>   (one session)
//	luapar <cfg x11> <stream1+stream2+...> <script> <mailrules> <rcptrules> <msgrules>   (concurrent sessions)
//	  => <replies> <mail table> <rcpt table> <hdr table> <store dump> <status>
package main

import (
	"bytes"
	"fmt"
	"regexp"
	"sort"
	"strconv"
	"strings"
	"sync"

	"github.com/inbucket/inbucket/v3/pkg/config"
	"github.com/inbucket/inbucket/v3/pkg/extension/event"
	"github.com/inbucket/inbucket/v3/pkg/extension/luahost"
	"github.com/rs/zerolog"
	"verifharness/smtpd"
	"verifharness/vh"
)

var addrRe = regexp.MustCompile(`<([A-Za-z0-9.+_'/!-]+@[A-Za-z0-9.\[\]-]+)>`)

func q(s string) string { return strconv.Quote(s) }

var noAnswer = []string{"return nil", "return 42", `return "allow"`, "return {}", `error("boom")`, "return false",
	"local x = nil\n return x.y", "return arg1", "", "return smtp", `return address.new("a","b@c")`,
	// a handler that scribbles on what it was handed and then fails / answers nothing: no trace may remain
	"arg1.from.address = \"tampered@evil.org\"\n for _, r in ipairs(arg1.to) do r.address = \"tampered@evil.org\" end\n error(\"boom\")",
	"arg1.from.address = string.upper(arg1.from.address)\n for _, r in ipairs(arg1.to) do r.address = string.upper(r.address) end\n return nil",
	"arg1.from = address.new(\"X\", \"x@tampered.org\")\n arg1.to = {}\n return 42",
	"for _, r in ipairs(arg1.to) do r.address = \"other@elsewhere.org\"; r.name = \"N\" end\n arg1.remote_addr = \"6.6.6.6\"\n return false"}

type ruleSet struct {
	lua    []string // "[key] = function(arg1) ... end"
	labels []string
}

func smtpRule(g *vh.Gen, key string, rs *ruleSet) {
	var body, label string
	switch g.Intn(6) {
	case 0:
		body, label = "return smtp.allow()", "A"
	case 1:
		body, label = "return smtp.defer()", "F"
	case 2:
		switch g.Intn(3) {
		case 0:
			code := g.Pick2(550, 553, 421, 451, 5, 99, 999)
			msg := g.Pick("no way", "policy says no", "x", "sender is 100% blocked", "50%", "%d %s %v%%")
			body, label = fmt.Sprintf("return smtp.deny(%d, %s)", code, q(msg)), fmt.Sprintf("D%d:%s", code, vh.HS(msg))
		case 1:
			body, label = "return smtp.deny()", "D550:"+vh.HS("Mail denied by policy")
		default:
			body, label = "return smtp.deny(452)", "D452:"+vh.HS("Mail denied by policy")
		}
	case 3: // several answers are built, the FIRST one is returned: each answer must be its own value
		switch g.Intn(3) {
		case 0:
			body, label = "local a = smtp.deny(451, \"greylisted\")\n local b = smtp.deny(554, \"blocked\")\n return a", "D451:"+vh.HS("greylisted")
		case 1:
			body, label = "local a = smtp.allow()\n local b = smtp.deny(550, \"x\")\n return a", "A"
		default:
			body, label = "local a = smtp.defer()\n local b = smtp.deny(550, \"x\")\n local c = smtp.allow()\n return a", "F"
		}
	default:
		body, label = g.Pick(noAnswer...), "N"
	}
	rs.lua = append(rs.lua, fmt.Sprintf("[%s] = function(arg1)\n %s\n end", q(key), body))
	rs.labels = append(rs.labels, vh.HS(key)+"="+label)
}

func hexList(xs []string) string {
	h := make([]string, len(xs))
	for i, x := range xs {
		h[i] = vh.HS(x)
	}
	return strings.Join(h, "+")
}

func msgRule(g *vh.Gen, key string, rs *ruleSet) {
	if g.Chance(0.12) {
		// the handler answers with a message it built itself: nothing is kept from the one it was handed - no
		// sender, no recipients, no subject, and only the mailboxes it sets (none unless it does)
		stmts := []string{"local m = inbound_message.new()"}
		mb, from, to, subj := "[]", vh.HS(""), "[]", vh.HS("")
		if g.Chance(0.7) {
			boxes := []string{g.Pick("fresh", "box2", "Fresh", "fresh+tag", "fresh@corp.example", "night shift"), g.Pick("second", "fresh+other", "SECOND")}[:1+g.Intn(2)]
			qs := make([]string, len(boxes))
			for i, b := range boxes {
				qs[i] = q(b)
			}
			stmts = append(stmts, "m.mailboxes = {"+strings.Join(qs, ", ")+"}")
			mb = "[" + hexList(boxes) + "]"
		}
		if g.Chance(0.4) {
			stmts = append(stmts, fmt.Sprintf("m.from = address.new(%s, %s)", q("F"), q("f@fresh.org")))
			from = vh.HS("f@fresh.org")
		}
		if g.Chance(0.4) {
			stmts = append(stmts, "m.subject = "+q("fresh subject"))
			subj = vh.HS("fresh subject")
		}
		stmts = append(stmts, "return m")
		rs.lua = append(rs.lua, fmt.Sprintf("[%s] = function(arg1)\n %s\n end", q(key), strings.Join(stmts, "\n ")))
		rs.labels = append(rs.labels, vh.HS(key)+"=O"+mb+";"+from+";"+to+";"+subj)
		return
	}
	var stmts []string
	mb, from, to, subj := "~", "~", "~", "~"
	if g.Chance(0.4) {
		// the handler LOOKS at what it was handed before it decides (counts, iterates, reads the first recipient): reading a
		// field must not change what a later assignment to it means
		stmts = append(stmts, g.Pick("local n = #arg1.mailboxes", "local first = arg1.to[1]", "local seen = {}\n for i, b in ipairs(arg1.mailboxes) do seen[b] = i end",
			"local n = #arg1.to + #arg1.mailboxes", "local f = arg1.from.address .. arg1.subject", "for _, a in ipairs(arg1.to) do local x = a.address end"))
	}
	if g.Chance(0.5) {
		// also names no address policy would produce: a hook's mailbox list is taken as it is (upper case, a +tag, an
		// @domain, a blank; two names that differ only in what a canonicaliser would cut)
		boxes := []string{g.Pick("redirected", "box2", "alice", "Audit", "ops+a", "archive@corp.example", "night shift", "a..b"),
			g.Pick("second", "second", "ops+b", "AUDIT", "ops")}[:1+g.Intn(2)]
		if g.Chance(0.15) {
			boxes = nil
		}
		qs := make([]string, len(boxes))
		for i, b := range boxes {
			qs[i] = q(b)
		}
		stmts = append(stmts, "arg1.mailboxes = {"+strings.Join(qs, ", ")+"}")
		mb = "[" + hexList(boxes) + "]"
	}
	if g.Chance(0.5) {
		a := g.Pick("new@from.org", "x@y.z")
		if g.Chance(0.5) {
			stmts = append(stmts, fmt.Sprintf("arg1.from = address.new(%s, %s)", q("New Name"), q(a)))
		} else {
			stmts = append(stmts, fmt.Sprintf("arg1.from.address = %s", q(a)))
		}
		from = vh.HS(a)
	}
	if g.Chance(0.4) {
		as := []string{"t1@x.org", "t2@y.org"}[:1+g.Intn(2)]
		qs := make([]string, len(as))
		for i, a := range as {
			qs[i] = fmt.Sprintf("address.new(%s, %s)", q(""), q(a))
		}
		stmts = append(stmts, "arg1.to = {"+strings.Join(qs, ", ")+"}")
		to = "[" + hexList(as) + "]"
	}
	if g.Chance(0.5) {
		s := g.Pick("rewritten subject", "")
		stmts = append(stmts, "arg1.subject = "+q(s))
		subj = vh.HS(s)
	}
	label := "O" + mb + ";" + from + ";" + to + ";" + subj
	switch g.Intn(4) {
	case 0: // a rewrite abandoned by an error or a wrong-typed return: must be silent
		stmts = append(stmts, g.Pick(`error("late failure")`, "return 7", "return nil", "return false", `return "x"`, "local z = nil\n return z.f"))
		label = "N"
	case 1: // plain no answer ("return arg1" would be an answer here: the message itself)
		na := g.Pick(noAnswer...)
		for na == "return arg1" {
			na = g.Pick(noAnswer...)
		}
		stmts = []string{na}
		label = "N"
	default:
		stmts = append(stmts, "return arg1")
	}
	rs.lua = append(rs.lua, fmt.Sprintf("[%s] = function(arg1)\n %s\n end", q(key), strings.Join(stmts, "\n ")))
	rs.labels = append(rs.labels, vh.HS(key)+"="+label)
}

func table(name string, rs ruleSet) string {
	return "local " + name + " = {\n" + strings.Join(rs.lua, ",\n") + "\n}\n"
}

func labels(rs ruleSet) string {
	if len(rs.labels) == 0 {
		return "-"
	}
	return strings.Join(rs.labels, ",")
}

// secondRules draws the rule table of a second, Go-implemented listener registered AFTER the Lua
// host on the same broker: it is consulted only when the Lua handler did not answer.
func secondRules(g *vh.Gen, addrs []string) string {
	var ls []string
	for _, a := range addrs {
		if !g.Chance(0.4) {
			continue
		}
		switch g.Intn(4) {
		case 0:
			ls = append(ls, vh.HS(a)+"=A")
		case 1:
			ls = append(ls, vh.HS(a)+"=F")
		default:
			code := g.Pick2(553, 554, 521)
			ls = append(ls, fmt.Sprintf("%s=D%d:%s", vh.HS(a), code, vh.HS("second listener says no")))
		}
	}
	if len(ls) == 0 {
		return "-"
	}
	return strings.Join(ls, ",")
}

func genScript(g *vh.Gen, streams [][]byte) (script, ml, rl, msl string) {
	seen := map[string]bool{}
	var addrs []string
	for _, s := range streams {
		for _, m := range addrRe.FindAllSubmatch(s, -1) {
			a := string(m[1])
			if !seen[a] {
				seen[a] = true
				addrs = append(addrs, a)
			}
		}
	}
	sort.Strings(addrs)
	var mail, rcpt, msg ruleSet
	for _, s := range streams {
		// the null reverse-path is a sender like any other: the hook is asked with session.from.address == ""
		if bytes.Contains(s, []byte("<>")) && !seen[""] && g.Chance(0.7) {
			seen[""] = true
			smtpRule(g, "", &mail)
		}
	}
	for _, a := range addrs {
		if g.Chance(0.45) {
			smtpRule(g, a, &mail)
		}
		if g.Chance(0.45) {
			smtpRule(g, a, &rcpt)
		}
	}
	for _, s := range []string{"hello", "Re: test 1", ""} {
		if g.Chance(0.6) {
			msgRule(g, s, &msg)
		}
	}
	var b strings.Builder
	b.WriteString(table("mail_rules", mail) + table("rcpt_rules", rcpt) + table("msg_rules", msg))
	if statefulScripts {
		// script-level state (a file-level local or a global) written on entry and read back after a short spin: every
		// concurrent call runs on its own Lua state, so a handler must find what IT wrote; a handler that finds the state of
		// another session answers 554, which no rule table entitles
		v := g.Pick("in_flight", "G_in_flight")
		decl := "local in_flight = nil\n"
		if v == "G_in_flight" {
			decl = "G_in_flight = nil\n"
		}
		b.WriteString(decl + "function inbucket.before.mail_from_accepted(session)\n local me = session.from.address\n " + v + " = me\n local x = 0\n for i = 1, 20000 do x = x + i end\n" +
			" if " + v + " ~= me then return smtp.deny(554, \"state of another session\") end\n local f = mail_rules[me]\n if f then return f(session) end\nend\n")
	} else if len(mail.lua) > 0 || g.Chance(0.5) {
		b.WriteString("function inbucket.before.mail_from_accepted(session)\n local f = mail_rules[session.from.address]\n if f then return f(session) end\nend\n")
	}
	if len(rcpt.lua) > 0 || g.Chance(0.5) {
		b.WriteString("function inbucket.before.rcpt_to_accepted(session)\n local f = rcpt_rules[session.to[#session.to].address]\n if f then return f(session) end\nend\n")
	}
	if len(msg.lua) > 0 || g.Chance(0.5) {
		b.WriteString("function inbucket.before.message_stored(msg)\n local f = msg_rules[msg.subject]\n if f then return f(msg) end\nend\n")
	}
	if g.Chance(0.3) {
		b.WriteString("function inbucket.after.message_stored(msg)\n " + g.Pick(`error("after hook fails")`, "msg.subject = \"tamper\"", "return 1") + "\nend\n")
	}
	if g.Chance(0.2) {
		b.WriteString("function inbucket.after.message_deleted(msg)\n error(\"x\")\nend\n")
	}
	lastAddrs = addrs
	return b.String(), labels(mail), labels(rcpt), labels(msg)
}

var lastAddrs []string

// statefulScripts: the generated script keeps state at script level (set for the concurrent stream).
var statefulScripts bool

// secondMsgRules draws the rule table of a second, Go-implemented listener on before.message_stored, registered
// AFTER the Lua host: for some subjects it answers with the message exactly as it was handed it, redirected to one
// mailbox. It is consulted only when the Lua handler did not answer, and must then see the message untouched.
func secondMsgRules(g *vh.Gen) string {
	var ls []string
	for _, s := range []string{"hello", "Re: test 1", ""} {
		if g.Chance(0.5) {
			ls = append(ls, vh.HS(s)+"=R"+vh.HS(g.Pick("second-box", "audit", "alice")))
		}
	}
	if len(ls) == 0 {
		return "-"
	}
	return strings.Join(ls, ",")
}

func gen(g *vh.Gen) {
	o := smtpd.Opts{Garbage: 0.05, MaxBody: 40}
	for i := 0; i < g.N(250, 5000); i++ {
		c, pool := smtpd.GenCfg(g, o)
		stream := smtpd.GenDialogue(g, c, pool[:3], o)
		script, ml, rl, msl := genScript(g, [][]byte{stream})
		// one case in six: a third listener that allows everything, and the script loaded a second time (the Lua host moves
		// behind the other listeners; the order of THOSE must not change)
		g.Emit(g.Pick("lua", "lua", "lua", "lua", "lua", "luareload"), append(c.Fields(), vh.H(stream), vh.HS(script), ml, rl, msl, secondRules(g, lastAddrs), secondRules(g, lastAddrs), secondMsgRules(g))...)
	}
	// failure runs: one handler raises k times in a row (k from 3 to 300), then the SAME handler is asked about an
	// address / a subject it answers: an error means "no answer" for that call only
	for i := 0; i < g.N(6, 90); i++ {
		c, pool := smtpd.GenCfg(g, o)
		c.DA, c.DS, c.Acc, c.Rej, c.Sto, c.Dis, c.RejO, c.MaxRcpt, c.MaxBytes = true, true, "", "", "", "", "", 1000, 10240000
		k := []int{15, 3, 40, 16, 100, 14, 300, 64}[i%8]
		bad, good := "raise@"+pool[0], "answer@"+pool[0]
		fail := g.Pick(`error("boom")`, "local z = nil\n return z.f")
		var mail, rcpt, msg ruleSet
		mail.lua = []string{fmt.Sprintf("[%s] = function(arg1)\n %s\n end", q(bad), fail), fmt.Sprintf("[%s] = function(arg1)\n return smtp.deny(553, %s)\n end", q(good), q("after the failures"))}
		mail.labels = []string{vh.HS(bad) + "=N", vh.HS(good) + "=D553:" + vh.HS("after the failures")}
		rcpt.lua = []string{fmt.Sprintf("[%s] = function(arg1)\n %s\n end", q(bad), fail), fmt.Sprintf("[%s] = function(arg1)\n return smtp.deny(550, %s)\n end", q(good), q("blocked mailbox"))}
		rcpt.labels = []string{vh.HS(bad) + "=N", vh.HS(good) + "=D550:" + vh.HS("blocked mailbox")}
		msg.lua = []string{fmt.Sprintf("[%s] = function(arg1)\n %s\n end", q("hello"), fail), fmt.Sprintf("[%s] = function(arg1)\n arg1.mailboxes = {%s}\n return arg1\n end", q("Re: test 1"), q("urgent"))}
		msg.labels = []string{vh.HS("hello") + "=N", vh.HS("Re: test 1") + "=O[" + hexList([]string{"urgent"}) + "];~;~;~"}
		script := table("mail_rules", mail) + table("rcpt_rules", rcpt) + table("msg_rules", msg) +
			"function inbucket.before.mail_from_accepted(session)\n local f = mail_rules[session.from.address]\n if f then return f(session) end\nend\n" +
			"function inbucket.before.rcpt_to_accepted(session)\n local f = rcpt_rules[session.to[#session.to].address]\n if f then return f(session) end\nend\n" +
			"function inbucket.before.message_stored(msg)\n local f = msg_rules[msg.subject]\n if f then return f(msg) end\nend\n"
		var b strings.Builder
		line := func(x string) { b.WriteString(x + "\r\n") }
		line("HELO runs.example")
		switch i % 3 {
		case 0: // the MAIL handler
			for j := 0; j < k; j++ {
				line("MAIL FROM:<" + bad + ">")
				line("RSET")
			}
			line("MAIL FROM:<" + good + ">")
		case 1: // the RCPT handler
			line("MAIL FROM:<s@" + pool[1] + ">")
			for j := 0; j < k; j++ {
				line("RCPT TO:<" + bad + ">")
			}
			line("RCPT TO:<" + good + ">")
		default: // the message handler
			for j := 0; j < k; j++ {
				line("MAIL FROM:<s@" + pool[1] + ">")
				line("RCPT TO:<pager@" + pool[0] + ">")
				line("DATA")
				b.WriteString(smtpd.StuffLines([]string{"Subject: hello", "", "x"}))
			}
			line("MAIL FROM:<s@" + pool[1] + ">")
			line("RCPT TO:<pager@" + pool[0] + ">")
			line("DATA")
			b.WriteString(smtpd.StuffLines([]string{"Subject: Re: test 1", "", "x"}))
		}
		line("QUIT")
		g.Emit("lua", append(c.Fields(), vh.H([]byte(b.String())), vh.HS(script), labels(mail), labels(rcpt), labels(msg), "-", "-", "-")...)
	}
	for i := 0; i < g.N(20, 400); i++ { // concurrent sessions against one host
		c, pool := smtpd.GenCfg(g, o)
		c.Store = "mem"
		k := 2 + g.Intn(7)
		streams := make([][]byte, k)
		hs := make([]string, k)
		for j := range streams {
			streams[j] = smtpd.GenDialogue(g, c, pool[:3], o)
			hs[j] = vh.H(streams[j])
		}
		statefulScripts = g.Chance(0.6)
		script, ml, rl, msl := genScript(g, streams)
		statefulScripts = false
		g.Emit("luapar", append(c.Fields(), strings.Join(hs, "+"), vh.HS(script), ml, rl, msl, secondRules(g, lastAddrs), secondRules(g, lastAddrs), secondMsgRules(g))...)
	}
	// abandoned rewrites: a before.message_stored handler assigns part of the message (fewer, more or other mailboxes
	// than there are recipients; a sender; a subject) and then does NOT answer - an error, nil, a value of the wrong
	// kind. Several recipients in one transaction; the message must reach exactly the mailboxes the policy gives them,
	// as if the handler had not run (with and without a second listener behind it)
	ga := g.Side("c17-abandoned")
	for i := 0; i < g.N(40, 1200); i++ {
		c, pool := smtpd.GenCfg(ga, o)
		c.DA, c.DS, c.Acc, c.Rej, c.Sto, c.Dis, c.RejO, c.MaxRcpt, c.MaxBytes = true, true, "", "", "", "", "", 1000, 10240000
		n := 1 + ga.Intn(4)
		boxes := [][]string{{"redirected"}, {"redirected", "second"}, {"a", "b", "c", "d", "e"}, {}, {"alice"}, {"Audit", "ops+a"}}[ga.Intn(6)]
		qs := make([]string, len(boxes))
		for j, b := range boxes {
			qs[j] = q(b)
		}
		stmts := []string{"arg1.mailboxes = {" + strings.Join(qs, ", ") + "}"}
		if ga.Chance(0.3) {
			stmts = append(stmts, "arg1.mailboxes[1] = \"first\"")
		}
		if ga.Chance(0.3) {
			stmts = append(stmts, "arg1.from.address = \"x@y.z\"")
		}
		if ga.Chance(0.3) {
			stmts = append(stmts, "arg1.subject = \"rewritten\"")
		}
		stmts = append(stmts, ga.Pick(`error("late failure")`, "return 7", "return nil", "return false", `return "x"`, "local z = nil\n return z.f", "return", "return {}"))
		var mail, rcpt, msg ruleSet
		msg.lua = []string{fmt.Sprintf("[%s] = function(arg1)\n %s\n end", q("hello"), strings.Join(stmts, "\n "))}
		msg.labels = []string{vh.HS("hello") + "=N"}
		script := table("mail_rules", mail) + table("rcpt_rules", rcpt) + table("msg_rules", msg) +
			"function inbucket.before.message_stored(msg)\n local f = msg_rules[msg.subject]\n if f then return f(msg) end\nend\n"
		var b strings.Builder
		line := func(x string) { b.WriteString(x + "\r\n") }
		line("HELO abandoned.example")
		for t := 0; t < 1+ga.Intn(2); t++ {
			line("MAIL FROM:<s@" + pool[1] + ">")
			for j := 0; j < n; j++ {
				line("RCPT TO:<" + []string{"alice", "bob", "carol", "dave"}[(j+t)%4] + "@" + pool[j%2] + ">")
			}
			line("DATA")
			b.WriteString(smtpd.StuffLines([]string{"Subject: hello", "", "x " + strconv.Itoa(t)}))
		}
		line("QUIT")
		second := "-"
		if ga.Chance(0.4) {
			second = vh.HS("hello") + "=R" + vh.HS(ga.Pick("second-box", "audit", "alice"))
		}
		ga.Emit(ga.Pick("lua", "lua", "lua", "luareload"), append(c.Fields(), vh.H([]byte(b.String())), vh.HS(script), labels(mail), labels(rcpt), labels(msg), "-", "-", second)...)
	}
}

func exec(kind string, in []string) []string {
	if kind != "lua" && kind != "luapar" && kind != "luareload" {
		return []string{"UNKNOWN-KIND"}
	}
	c := smtpd.ParseCfg(in[:smtpd.NFields])
	var streams [][]byte
	for _, h := range strings.Split(in[smtpd.NFields], "+") {
		streams = append(streams, vh.U(h))
	}
	env, err := smtpd.NewEnv(c, vh.US(in[smtpd.NFields+1]), config.Storage{})
	if err != nil {
		return []string{"SETUPERR", vh.HS(err.Error())}
	}
	defer env.Close()
	if len(in) > smtpd.NFields+6 {
		second := func(rules string) map[string]*event.SMTPResponse {
			m := map[string]*event.SMTPResponse{}
			if rules == "-" {
				return m
			}
			for _, e := range strings.Split(rules, ",") {
				kv := strings.SplitN(e, "=", 2)
				switch kv[1][0] {
				case 'A':
					m[vh.US(kv[0])] = &event.SMTPResponse{Action: event.ActionAllow}
				case 'F':
					m[vh.US(kv[0])] = &event.SMTPResponse{Action: event.ActionDefer}
				case 'D':
					cm := strings.SplitN(kv[1][1:], ":", 2)
					m[vh.US(kv[0])] = &event.SMTPResponse{Action: event.ActionDeny, ErrorCode: vh.AtoI(cm[0]), ErrorMsg: vh.US(cm[1])}
				}
			}
			return m
		}
		m2, r2 := second(in[smtpd.NFields+5]), second(in[smtpd.NFields+6])
		env.Host.Events.BeforeMailFromAccepted.AddListener("second", func(s event.SMTPSession) *event.SMTPResponse {
			if s.From == nil {
				return nil
			}
			return m2[s.From.Address]
		})
		env.Host.Events.BeforeRcptToAccepted.AddListener("second", func(s event.SMTPSession) *event.SMTPResponse {
			if len(s.To) == 0 {
				return nil
			}
			return r2[s.To[len(s.To)-1].Address]
		})
	}
	if len(in) > smtpd.NFields+7 && in[smtpd.NFields+7] != "-" {
		redirect := map[string]string{}
		for _, e := range strings.Split(in[smtpd.NFields+7], ",") {
			kv := strings.SplitN(e, "=", 2)
			redirect[vh.US(kv[0])] = vh.US(kv[1][1:])
		}
		env.Host.Events.BeforeMessageStored.AddListener("second", func(m event.InboundMessage) *event.InboundMessage {
			mb, ok := redirect[m.Subject]
			if !ok {
				return nil
			}
			// the message as this listener sees it, redirected
			r := m
			r.Mailboxes = []string{mb}
			return &r
		})
	}
	if kind == "luareload" {
		// a third listener that allows everything, then the script is loaded a second time on the same host:
		// AddListener("lua", ...) removes the old entry and appends the new one behind "second" and "third"
		env.Host.Events.BeforeMailFromAccepted.AddListener("third", func(event.SMTPSession) *event.SMTPResponse {
			return &event.SMTPResponse{Action: event.ActionAllow}
		})
		env.Host.Events.BeforeRcptToAccepted.AddListener("third", func(event.SMTPSession) *event.SMTPResponse {
			return &event.SMTPResponse{Action: event.ActionAllow}
		})
		if script := vh.US(in[smtpd.NFields+1]); script != "" {
			if _, err := luahost.NewFromReader(zerolog.Nop(), env.Host, strings.NewReader(script), "verif.lua"); err != nil {
				return []string{"SETUPERR", vh.HS("reload: " + err.Error())}
			}
		}
	}
	outs := make([][]byte, len(streams))
	errs := make([]error, len(streams))
	var wg sync.WaitGroup
	for i := range streams {
		wg.Add(1)
		go func(i int) {
			defer wg.Done()
			outs[i], errs[i] = env.Session(streams[i])
		}(i)
	}
	wg.Wait()
	status := "ok"
	reps := make([]string, len(streams))
	var all []byte
	for i := range streams {
		if errs[i] != nil {
			status = "err:" + vh.HS(errs[i].Error())
		}
		reps[i] = strings.Join(smtpd.ReplyTokens(outs[i]), ",")
		if reps[i] == "" {
			reps[i] = "-"
		}
		all = append(all, streams[i]...)
		all = append(all, '\n')
	}
	mt, rt := env.Facts(all)
	dump := smtpd.DumpStore(env.Store)
	if kind == "luapar" {
		dump = smtpd.SortWithinBoxes(dump)
	}
	// the raw reply lines (greeting dropped), for the text of hook-denied replies
	raws := make([]string, len(streams))
	for i := range streams {
		ls := strings.Split(strings.TrimSuffix(string(outs[i]), "\r\n"), "\r\n")
		if len(ls) > 0 {
			ls = ls[1:]
		}
		hs := make([]string, len(ls))
		for j, l := range ls {
			hs[j] = vh.HS(l)
		}
		raws[i] = strings.Join(hs, ",")
		if raws[i] == "" {
			raws[i] = "-"
		}
	}
	return []string{strings.Join(reps, "|"), mt, rt, env.HdrTable(), dump, status + ";" + env.IPTable(), strings.Join(raws, "|")}
}

func main() { vh.Main(gen, exec) }

// Driver for C12 (retention removes exactly the expired messages and nothing else).
//
//	scan <store> <period_s> <boxes> <inj> <cancelAt>
//	   store    mem | file | file.pathlink | file.maillink | file.bucketlink (see newStore: symbolic links in the storage tree)
//	   boxes    mb:age,age,…;mb:…       ages in seconds ("mb:" = a mailbox that got mail and was purged); "age*n" = n
//	                                    messages of that age (large mailboxes)
//	   inj      pos/op,…                 operations of other clients forced between the scanner's steps
//	              pos  v<n>  before the walk takes its n-th mailbox snapshot (n=1: before DoScan)
//	                   r<n>  before the scanner's n-th RemoveMessage call
//	                   p2|p3 (file store) inside VisitMailboxes, right before it reads the level-2 /
//	                         level-3 directory that holds the operation's mailbox (verifhook points)
//	              op   add:<mb> | rm:<mb>:<k> | purge:<mb> | seen:<mb>:<k>
//	                   padd:<mb> (only at r<n>): a delivery already past its mailbox lookup when the scanner's
//	                   n-th RemoveMessage runs, taking the mailbox lock right after it (reported as a<n>/add)
//	                   pv/padd:<mb>: a delivery past its mailbox lookup before the walk collects the mailboxes,
//	                   taking the mailbox lock after the first callback (reported as v2/add)
//	   cancelAt n: the context is cancelled during the n-th callback (RetentionSleep 100 ms); nz / nn: the same
//	            with RetentionSleep 0 / 1 ns (the select at the callback end is then a race); "-": never;
//	            "<n>r<m>": cancelled inside the n-th callback at that callback's m-th RemoveMessage call
//	 => <order of callbacks> <ok|ERR> <callbacks> E=<effective schedule> D=<survivors> R=<removed by the scanner>
//	dlv <store> <period_s> <wait_s> <dates>            real StoreManager.Deliver of mails with their own Date: headers
//	 => ok|ERR <surviving message numbers>             (past / future / none / garbled), wait, DoScan: arrival time decides
//	slow <store> <period_s> <boxes> <mb>               a delivery to <mb> whose body reader parks after its first chunk (the
//	 => <ok|ERR> D=<survivors> R=<removed, sorted>      message is half way into the store) while DoScan runs — to completion if the
//	                                                    store lets it, else the reader is released after 200 ms —, then the rest arrives
//	In every D= a survivor whose Source() cannot be opened or does not hold the delivered bytes is marked "<k>!".
//	start <store> <period_s> <cancel_ms> <boxes>      cancel_ms < 0: never cancelled; >= 60000: Start's first scan
//	 => returned|TIMEOUT D=<survivors>                  (one minute after Start) has run before the cancellation
//
// The real RetentionScanner runs on the real memory / file store; the store handed to it is
// wrapped only to observe and to force the interleaving (storage.Store is an interface).
package main

import (
	"bytes"
	"context"
	"fmt"
	"io"
	"net/mail"
	"os"
	"path/filepath"
	"sort"
	"strconv"
	"strings"
	"sync"
	"sync/atomic"
	"time"

	"github.com/inbucket/inbucket/v3/pkg/config"
	"github.com/inbucket/inbucket/v3/pkg/extension"
	"github.com/inbucket/inbucket/v3/pkg/extension/event"
	"github.com/inbucket/inbucket/v3/pkg/message"
	"github.com/inbucket/inbucket/v3/pkg/policy"
	"github.com/inbucket/inbucket/v3/pkg/storage"
	"github.com/inbucket/inbucket/v3/pkg/storage/file"
	"github.com/inbucket/inbucket/v3/pkg/storage/mem"
	"github.com/inbucket/inbucket/v3/pkg/stringutil"
	"github.com/inbucket/inbucket/v3/pkg/verifhook"
	"github.com/rs/zerolog"
	"verifharness/asmsys"
	"verifharness/vh"
)

type inj struct {
	pos  string
	op   []string
	done bool
}

type drv struct {
	inner     storage.Store
	ids       map[string][]string
	rev       map[string]map[string]int
	names     map[string]bool
	content   map[string]string // mailbox NUL id -> the bytes delivered
	seq       int
	injs      []*inj
	order     []string
	callbacks int
	attempts  int
	cancelAt  int
	cancelRm  int // > 0: the cancellation comes at the cancelRm-th RemoveMessage call of callback cancelAt
	cbRm      int // RemoveMessage calls of the current callback
	cancel    context.CancelFunc
	stopped   bool
	eff       []string
	removed   []string
	busy      int32
	// a delivery parked between its mailbox lookup and its mailbox lock (memory store: verifhook mem.wm.lock)
	isMem   bool
	armed   int32
	parkMb  string
	parked  chan struct{}
	release chan struct{}
}

func (d *drv) add(mb string, age int) {
	date := time.Now().Add(-time.Duration(age) * time.Second)
	d.seq++
	content := fmt.Sprintf("Subject: s\r\n\r\nbody %d\r\n", d.seq)
	id, err := d.inner.AddMessage(&message.Delivery{
		Meta: event.MessageMetadata{Mailbox: mb, From: &mail.Address{Address: "f@x"}, To: []*mail.Address{{Address: "t@x"}},
			Date: date, Subject: "s"},
		Reader: bytes.NewReader([]byte(content)),
	})
	if err != nil {
		panic("add failed: " + err.Error())
	}
	d.register(mb, id, content)
}

func (d *drv) register(mb, id, content string) {
	if d.rev[mb] == nil {
		d.rev[mb] = map[string]int{}
	}
	d.rev[mb][id] = len(d.ids[mb])
	d.ids[mb] = append(d.ids[mb], id)
	d.names[mb] = true
	d.content[mb+"\x00"+id] = content
}

// intact: the message's content can be opened and is what was delivered.
func (d *drv) intact(mb string, m storage.Message) bool {
	want, ok := d.content[mb+"\x00"+m.ID()]
	if !ok {
		return true
	}
	r, err := m.Source()
	if err != nil {
		return false
	}
	defer r.Close()
	got, err := io.ReadAll(r)
	return err == nil && string(got) == want
}

func (d *drv) idOf(mb string, k int) string {
	if k < len(d.ids[mb]) {
		return d.ids[mb][k]
	}
	return "nosuch"
}

func (d *drv) apply(op []string) {
	mb := vh.US(op[1])
	switch op[0] {
	case "add":
		d.add(mb, 0)
	case "rm":
		_ = d.inner.RemoveMessage(mb, d.idOf(mb, vh.AtoI(op[2])))
	case "purge":
		_ = d.inner.PurgeMessages(mb)
	case "seen":
		_ = d.inner.MarkSeen(mb, d.idOf(mb, vh.AtoI(op[2])))
	}
}

// fire runs the injections scheduled at a position; eff is the position in the model's terms.
func (d *drv) fire(match func(*inj) bool, eff string) {
	if !atomic.CompareAndSwapInt32(&d.busy, 0, 1) {
		return
	}
	defer atomic.StoreInt32(&d.busy, 0)
	for _, in := range d.injs {
		if !in.done && match(in) {
			in.done = true
			d.apply(in.op)
			d.eff = append(d.eff, eff+"/"+strings.Join(in.op, ":"))
		}
	}
}

func (d *drv) nextVisit() string { return "v" + strconv.Itoa(d.callbacks+1) }

// hookStore is what the scanner sees.
type hookStore struct {
	storage.Store
	d *drv
}

func (h *hookStore) VisitMailboxes(f func([]storage.Message) bool) error {
	d := h.d
	// "pv/padd:<mb>": a delivery that has looked its mailbox up BEFORE the walk collects the mailboxes (memory store:
	// parked at mem.wm.lock) and takes the mailbox lock only after the first callback (or after the walk, if it makes
	// no callback); reported at the position where it completes, v<callbacks+1>.
	var late *inj
	for _, in := range d.injs {
		if !in.done && in.pos == "pv" && in.op[0] == "padd" {
			in.done = true
			late = in
			break
		}
	}
	var fin chan struct{}
	if late != nil && d.isMem {
		target := vh.US(late.op[1])
		d.parkMb, d.parked, d.release = target, make(chan struct{}), make(chan struct{})
		fin = make(chan struct{})
		atomic.StoreInt32(&d.armed, 1)
		go func() { d.add(target, 0); close(fin) }()
		select {
		case <-d.parked:
		case <-fin:
		case <-time.After(2 * time.Second):
		}
		atomic.StoreInt32(&d.armed, 0)
	}
	complete := func() {
		if late == nil {
			return
		}
		if d.isMem {
			close(d.release)
			select {
			case <-fin:
			case <-time.After(5 * time.Second):
				d.eff = append(d.eff, "STUCK")
			}
		} else {
			d.add(vh.US(late.op[1]), 0)
		}
		d.eff = append(d.eff, d.nextVisit()+"/add:"+late.op[1])
		late = nil
	}
	defer complete()
	return h.Store.VisitMailboxes(func(ms []storage.Message) bool {
		name := "-"
		if len(ms) > 0 {
			name = vh.HS(ms[0].Mailbox())
		}
		d.order = append(d.order, name)
		d.cbRm = 0
		// (a mailbox with fewer messages than cancelRm cannot reach that removal: cancelled at the callback start)
		if d.cancelAt > 0 && d.callbacks+1 == d.cancelAt && (d.cancelRm == 0 || len(ms) < d.cancelRm) {
			d.cancel()
		}
		cont := f(ms)
		d.callbacks++
		complete()
		if !cont {
			d.stopped = true
			return false
		}
		pos := d.nextVisit()
		d.fire(func(in *inj) bool { return in.pos == pos }, pos)
		return true
	})
}

func (h *hookStore) RemoveMessage(mb, id string) error {
	d := h.d
	d.attempts++
	d.cbRm++
	if d.cancelRm > 0 && d.callbacks+1 == d.cancelAt && d.cbRm == d.cancelRm {
		d.cancel()
	}
	pos := "r" + strconv.Itoa(d.attempts)
	d.fire(func(in *inj) bool { return in.pos == pos && in.op[0] != "padd" }, pos)
	// "padd" (at most one per position): a delivery that has already looked its mailbox up when this
	// removal runs and takes the mailbox lock only afterwards (memory store: parked at the verifhook
	// point mem.wm.lock); it is linearised right after the removal. File store: delivered right after.
	var late *inj
	for _, in := range d.injs {
		if !in.done && in.pos == pos && in.op[0] == "padd" {
			in.done = true
			late = in
			break
		}
	}
	var fin chan struct{}
	if late != nil && d.isMem {
		target := vh.US(late.op[1])
		d.parkMb, d.parked, d.release = target, make(chan struct{}), make(chan struct{})
		fin = make(chan struct{})
		atomic.StoreInt32(&d.armed, 1)
		go func() { d.add(target, 0); close(fin) }()
		select {
		case <-d.parked:
		case <-fin:
		case <-time.After(2 * time.Second):
		}
		atomic.StoreInt32(&d.armed, 0)
	}
	err := h.Store.RemoveMessage(mb, id)
	if err == nil {
		k := "?"
		if v, ok := d.rev[mb][id]; ok {
			k = strconv.Itoa(v)
		}
		d.removed = append(d.removed, vh.HS(mb)+"."+k)
	}
	if late != nil {
		if d.isMem {
			close(d.release)
			select {
			case <-fin:
			case <-time.After(5 * time.Second):
				d.eff = append(d.eff, "STUCK")
			}
		} else {
			d.add(vh.US(late.op[1]), 0)
		}
		d.eff = append(d.eff, "a"+strconv.Itoa(d.attempts)+"/add:"+late.op[1])
	}
	return err
}

// A store that offers a batched removal (RemoveMessages(mailbox, ids), not part of storage.Store as it is) is handed
// to the scanner with that method still visible: the call is one removal step — other clients' operations scheduled
// before the scanner's n-th removal run first — and what it removed is read off the store afterwards.
type batchRemover interface {
	RemoveMessages(mailbox string, ids []string) (int, error)
}

type hookStoreBatch struct {
	*hookStore
	b batchRemover
}

func (h *hookStoreBatch) RemoveMessages(mb string, ids []string) (int, error) {
	d := h.d
	d.attempts++
	pos := "r" + strconv.Itoa(d.attempts)
	d.fire(func(in *inj) bool { return in.pos == pos && in.op[0] != "padd" }, pos)
	var there []string
	for _, id := range ids {
		if m, err := d.inner.GetMessage(mb, id); err == nil && m != nil {
			there = append(there, id)
		}
	}
	n, err := h.b.RemoveMessages(mb, ids)
	for _, id := range there {
		if m, err := d.inner.GetMessage(mb, id); err != nil || m == nil {
			k := "?"
			if v, ok := d.rev[mb][id]; ok {
				k = strconv.Itoa(v)
			}
			d.removed = append(d.removed, vh.HS(mb)+"."+k)
		}
	}
	return n, err
}

func scannerStore(st storage.Store, d *drv) storage.Store {
	hs := &hookStore{Store: st, d: d}
	if b, ok := st.(batchRemover); ok {
		return &hookStoreBatch{hookStore: hs, b: b}
	}
	return hs
}

// PurgeMessages is not called by the scanner as it is; if a scan ever does, the call is a removal step
// like RemoveMessage: other clients' operations scheduled before the scanner's n-th removal run first.
func (h *hookStore) PurgeMessages(mb string) error {
	d := h.d
	d.attempts++
	pos := "r" + strconv.Itoa(d.attempts)
	d.fire(func(in *inj) bool { return in.pos == pos && in.op[0] != "padd" }, pos)
	return h.Store.PurgeMessages(mb)
}

// dump: which of the messages ever delivered are still in the store — every id is asked for on its own
// (GetMessage), so a listing that leaves something out hides nothing —, plus whatever a listing shows beyond them.
func (d *drv) dump() string {
	var names []string
	for n := range d.names {
		names = append(names, n)
	}
	sort.Strings(names)
	var parts []string
	for _, mb := range names {
		var ks []string
		known := map[string]bool{}
		for k, id := range d.ids[mb] {
			known[id] = true
			m, err := d.inner.GetMessage(mb, id)
			if err != nil || m == nil {
				continue
			}
			t := strconv.Itoa(k)
			if !d.intact(mb, m) {
				t += "!"
			}
			ks = append(ks, t)
		}
		ms, err := d.inner.GetMessages(mb)
		if err != nil {
			parts = append(parts, vh.HS(mb)+"=ERR")
			continue
		}
		for _, m := range ms {
			if !known[m.ID()] {
				ks = append(ks, "?")
			}
		}
		if len(ks) == 0 {
			continue
		}
		parts = append(parts, vh.HS(mb)+"="+strings.Join(ks, ":"))
	}
	sort.Strings(parts)
	return "D=" + strings.Join(parts, "|")
}

var caseNo int

func workdir() string {
	if d := os.Getenv("VERIF_WORKDIR"); d != "" {
		return d
	}
	return os.TempDir()
}

// newStore: kind is mem | file | file.<layout>. The layout is the ENVIRONMENT of a file-store case:
//
//	pathlink    the storage path itself is a symbolic link to a directory elsewhere
//	maillink    <path>/mail is a symbolic link to a directory elsewhere (made before file.New)
//	bucketlink  after the mailboxes have been filled and before the scan (envReady) every first-level hash
//	            directory is moved elsewhere and replaced by a symbolic link
//
// The store follows the links for deliveries and listings; so must the walk of the retention scan.
func newStore(kind string) (storage.Store, func()) {
	caseNo++
	envReady = func() {}
	extHost := extension.NewHost()
	if strings.HasPrefix(kind, "file") {
		root := filepath.Join(workdir(), fmt.Sprintf("c12-%d-%d", os.Getpid(), caseNo))
		dir := root
		switch strings.TrimPrefix(kind, "file") {
		case ".pathlink":
			dir = filepath.Join(root, "store")
			real := filepath.Join(root, "volume")
			_ = os.MkdirAll(real, 0o770)
			_ = os.Symlink(real, dir)
		case ".maillink":
			dir = filepath.Join(root, "store")
			real := filepath.Join(root, "mailvolume")
			_ = os.MkdirAll(dir, 0o770)
			_ = os.MkdirAll(real, 0o770)
			_ = os.Symlink(real, filepath.Join(dir, "mail"))
		case ".bucketlink":
			dir = filepath.Join(root, "store")
			envReady = func() {
				mail := filepath.Join(dir, "mail")
				ents, err := os.ReadDir(mail)
				if err != nil {
					return
				}
				vol := filepath.Join(root, "buckets")
				_ = os.MkdirAll(vol, 0o770)
				for _, e := range ents {
					p := filepath.Join(mail, e.Name())
					if fi, err := os.Lstat(p); err == nil && fi.IsDir() {
						dst := filepath.Join(vol, e.Name())
						if os.Rename(p, dst) == nil {
							_ = os.Symlink(dst, p)
						}
					}
				}
			}
		}
		st, err := file.New(config.Storage{Params: map[string]string{"path": dir}}, extHost)
		if err != nil {
			panic(err)
		}
		return st, func() { os.RemoveAll(root) }
	}
	st, err := mem.New(config.Storage{Params: map[string]string{}}, extHost)
	if err != nil {
		panic(err)
	}
	return st, func() {}
}

// envReady is called once the mailboxes of a case have been filled, before the scanner runs (layout bucketlink).
var envReady = func() {}

func (d *drv) fill(boxes string) {
	if boxes == "-" {
		return
	}
	for _, b := range strings.Split(boxes, ";") {
		p := strings.SplitN(b, ":", 2)
		mb := vh.US(p[0])
		if p[1] == "" {
			d.add(mb, 0)
			_ = d.inner.PurgeMessages(mb)
			continue
		}
		for _, a := range strings.Split(p[1], ",") {
			// "<age>*<n>": n messages of that age, one after the other
			n := 1
			if i := strings.IndexByte(a, '*'); i >= 0 {
				a, n = a[:i], vh.AtoI(a[i+1:])
			}
			for ; n > 0; n-- {
				d.add(mb, vh.AtoI(a))
			}
		}
	}
}

func newDrv(st storage.Store) *drv {
	return &drv{inner: st, ids: map[string][]string{}, rev: map[string]map[string]int{}, names: map[string]bool{}, content: map[string]string{}}
}

func runScan(in []string) []string {
	st, cleanup := newStore(in[0])
	defer cleanup()
	period := vh.AtoI(in[1])
	d := newDrv(st)
	d.fill(in[2])
	envReady()
	if in[3] != "-" {
		for _, s := range strings.Split(in[3], ",") {
			p := strings.SplitN(s, "/", 2)
			d.injs = append(d.injs, &inj{pos: p[0], op: strings.Split(p[1], ":")})
		}
	}
	// cancelAt: "<n>" cancels during the n-th callback with RetentionSleep 100 ms (at the callback end only the
	// ctx case is ready); "<n>z" / "<n>n" do so with RetentionSleep 0 / 1 ns: the sleep timer has expired when
	// the select is reached, timer and ctx.Done race and the scan may go on with further mailboxes.
	sleep := time.Duration(0)
	if in[4] != "-" {
		c := in[4]
		switch c[len(c)-1] {
		case 'z':
			c = c[:len(c)-1]
		case 'n':
			c, sleep = c[:len(c)-1], time.Nanosecond
		default:
			sleep = 100 * time.Millisecond // waited for in the callbacks before the cancelled one
		}
		// "<n>r<m>": cancelled inside the n-th callback, at that callback's m-th RemoveMessage call
		if i := strings.IndexByte(c, 'r'); i >= 0 {
			d.cancelRm = vh.AtoI(c[i+1:])
			c = c[:i]
		}
		d.cancelAt = vh.AtoI(c)
	}
	ctx, cancel := context.WithCancel(context.Background())
	defer cancel()
	d.cancel = cancel
	rs := storage.NewRetentionScanner(config.Storage{RetentionPeriod: time.Duration(period) * time.Second, RetentionSleep: sleep},
		scannerStore(st, d))
	// file store: operations forced between the directory reads of the walk
	d.isMem = in[0] == "mem"
	verifhook.Set(func(site, arg string) {
		if site == "mem.wm.lock" {
			if arg == d.parkMb && atomic.CompareAndSwapInt32(&d.armed, 1, 0) {
				close(d.parked)
				<-d.release
			}
			return
		}
		if site != "file.visit.l2" && site != "file.visit.l3" {
			return
		}
		want := "p2"
		n := 3
		if site == "file.visit.l3" {
			want, n = "p3", 6
		}
		d.fire(func(in *inj) bool {
			return in.pos == want && stringutil.HashMailboxName(vh.US(in.op[1]))[0:n] == arg
		}, d.nextVisit())
	})
	defer verifhook.Set(nil)
	d.fire(func(in *inj) bool { return in.pos == "v1" }, "v1")
	t0 := time.Now()
	err := rs.DoScan(ctx)
	took := time.Since(t0)
	res := "ok"
	if err != nil {
		res = "ERR"
	}
	// a removal on the file store rewrites the mailbox index: large mailboxes get 20 ms per removal on top
	if took > 2*time.Second+time.Duration(d.attempts)*20*time.Millisecond {
		res += "-SLOW"
	}
	order := strings.Join(d.order, ",")
	if order == "" {
		order = "none"
	}
	return []string{order, res, strconv.Itoa(d.callbacks), "E=" + strings.Join(d.eff, ","), d.dump(), "R=" + strings.Join(d.removed, ",")}
}

// gatedReader hands out head, then announces that the store has come back for more and waits for the
// release before it hands out tail and EOF: a delivery whose body is still arriving.
type gatedReader struct {
	head, tail io.Reader
	entered    chan struct{}
	release    chan struct{}
	once       sync.Once
}

func (g *gatedReader) Read(p []byte) (int, error) {
	if n, err := g.head.Read(p); n > 0 || err != io.EOF {
		return n, err
	}
	g.once.Do(func() { close(g.entered) })
	<-g.release
	return g.tail.Read(p)
}

// runSlow: slow <store> <period_s> <boxes> <mb>
// A message for <mb> is handed to the real Store.AddMessage with a body reader that parks after its first chunk;
// while it is parked the real DoScan runs. If the store makes the scanner wait for the delivery (the file store
// holds the mailbox lock while it copies the body) the reader is released after 200 ms, otherwise after the scan
// has completed. Whatever the store does: afterwards the expired messages are gone, the young ones and the new
// one are listed, and the content of every listed message is the bytes delivered.
func runSlow(in []string) []string {
	st, cleanup := newStore(in[0])
	defer cleanup()
	period := vh.AtoI(in[1])
	d := newDrv(st)
	d.fill(in[2])
	envReady()
	mb := vh.US(in[3])
	head, tail := "Subject: s\r\n\r\nfirst half of a slow body\r\n", "second half of a slow body\r\n"
	gr := &gatedReader{head: strings.NewReader(head), tail: strings.NewReader(tail), entered: make(chan struct{}), release: make(chan struct{})}
	type result struct {
		id  string
		err error
	}
	delivered := make(chan result, 1)
	go func() {
		id, err := st.AddMessage(&message.Delivery{
			Meta: event.MessageMetadata{Mailbox: mb, From: &mail.Address{Address: "f@x"}, To: []*mail.Address{{Address: "t@x"}},
				Date: time.Now(), Subject: "s"},
			Reader: gr,
		})
		delivered <- result{id, err}
	}()
	select {
	case <-gr.entered:
	case <-time.After(5 * time.Second):
		close(gr.release)
		return []string{"DELIVERY-NEVER-READ"}
	}
	rs := storage.NewRetentionScanner(config.Storage{RetentionPeriod: time.Duration(period) * time.Second}, scannerStore(st, d))
	scanned := make(chan error, 1)
	go func() { scanned <- rs.DoScan(context.Background()) }()
	res := "ok"
	scanDone := false
	select {
	case err := <-scanned:
		scanDone = true
		if err != nil {
			res = "ERR"
		}
	case <-time.After(200 * time.Millisecond):
	}
	close(gr.release)
	var r result
	select {
	case r = <-delivered:
	case <-time.After(5 * time.Second):
		return []string{"DELIVERY-STUCK"}
	}
	if !scanDone {
		select {
		case err := <-scanned:
			if err != nil {
				res = "ERR"
			}
		case <-time.After(5 * time.Second):
			return []string{"SCAN-STUCK"}
		}
	}
	if r.err != nil {
		return []string{"DELIVERERR", vh.HS(r.err.Error())}
	}
	d.register(mb, r.id, head+tail)
	sort.Strings(d.removed)
	return []string{res, d.dump(), "R=" + strings.Join(d.removed, ",")}
}

func runStart(in []string) []string {
	st, cleanup := newStore(in[0])
	defer cleanup()
	period := vh.AtoI(in[1])
	cancelMs := vh.AtoI(in[2])
	d := newDrv(st)
	d.fill(in[3])
	envReady()
	ctx, cancel := context.WithCancel(context.Background())
	defer cancel()
	rs := storage.NewRetentionScanner(config.Storage{RetentionPeriod: time.Duration(period) * time.Second}, st)
	go rs.Start(ctx)
	if cancelMs >= 0 {
		time.AfterFunc(time.Duration(cancelMs)*time.Millisecond, cancel)
	}
	joined := make(chan struct{})
	go func() { rs.Join(); close(joined) }()
	res := "returned"
	select {
	case <-joined:
	case <-time.After(time.Duration(max(cancelMs, 0))*time.Millisecond + 5*time.Second):
		res = "TIMEOUT"
	}
	return []string{res, d.dump()}
}

// runDeliver: dlv <store> <period_s> <wait_s> <dates>
// Mail arrives through the real delivery path (message.StoreManager.Deliver: header parsing, policy, hooks,
// Store.AddMessage) carrying its own Date: header — seconds relative to now, comma separated: negative = in the
// past, positive = in the future, "x" = no Date header, "g" = garbled — then wait_s seconds pass and DoScan runs.
// What retention goes by is when the mail ARRIVED: => ok <survivors: message numbers>
func runDeliver(in []string) []string {
	st, cleanup := newStore(in[0])
	defer cleanup()
	period, wait := vh.AtoI(in[1]), vh.AtoI(in[2])
	conf := &config.Root{MailboxNaming: config.LocalNaming}
	conf.SMTP.DefaultAccept, conf.SMTP.DefaultStore = true, true
	pol := &policy.Addressing{Config: conf}
	mgr := &message.StoreManager{AddrPolicy: pol, Store: st, ExtHost: extension.NewHost()}
	from, err := pol.ParseOrigin("sender@src.example")
	if err != nil {
		return []string{"SETUPERR"}
	}
	dates := strings.Split(in[3], ",")
	for i, ds := range dates {
		rcpt, err := pol.NewRecipient(fmt.Sprintf("box%d@dst.example", i%2))
		if err != nil {
			return []string{"SETUPERR"}
		}
		hdr := ""
		switch ds {
		case "x":
		case "g":
			hdr = "Date: the day before yesterday\r\n"
		default:
			hdr = "Date: " + time.Now().Add(time.Duration(vh.AtoI(ds))*time.Second).Format(time.RFC1123Z) + "\r\n"
		}
		content := fmt.Sprintf("%sFrom: sender@src.example\r\nTo: box%d@dst.example\r\nSubject: m%d\r\n\r\nbody %d\r\n", hdr, i%2, i, i)
		if err := mgr.Deliver(from, []*policy.Recipient{rcpt}, "Received: from verif", []byte(content)); err != nil {
			return []string{"DELIVERERR", vh.HS(err.Error())}
		}
	}
	time.Sleep(time.Duration(wait) * time.Second)
	rs := storage.NewRetentionScanner(config.Storage{RetentionPeriod: time.Duration(period) * time.Second}, st)
	res := "ok"
	if err := rs.DoScan(context.Background()); err != nil {
		res = "ERR"
	}
	var surv []int
	for b := 0; b < 2; b++ {
		ms, err := st.GetMessages(fmt.Sprintf("box%d", b))
		if err != nil {
			return []string{"LISTERR"}
		}
		for _, m := range ms {
			if n, err := strconv.Atoi(strings.TrimPrefix(m.Subject(), "m")); err == nil {
				surv = append(surv, n)
			}
		}
	}
	sort.Ints(surv)
	ss := make([]string, len(surv))
	for i, v := range surv {
		ss[i] = strconv.Itoa(v)
	}
	s := strings.Join(ss, ",")
	if s == "" {
		s = "-"
	}
	return []string{res, s}
}

func exec(kind string, in []string) []string {
	if asmsys.Is(kind) {
		return asmsys.Exec(kind, in)
	}
	switch kind {
	case "scan":
		return runScan(in)
	case "start":
		return runStart(in)
	case "slow":
		return runSlow(in)
	case "dlv":
		return runDeliver(in)
	}
	return []string{"UNKNOWN-KIND"}
}

func main() {
	if asmsys.ChildMain() {
		return
	}
	zerolog.SetGlobalLevel(zerolog.Disabled)
	vh.Main(gen, exec)
}

package main

import (
	"fmt"
	"strings"

	"verifharness/asmsys"
	"verifharness/vh"
)

var pool = []string{"a", "b", "c", "dd", "e5", "box.f", "g@example.com", "h+i", "jj", "k"}

func age(g *vh.Gen, period int, expired bool) int {
	if expired {
		return period + 2 + g.Intn(50) + g.Intn(2)*g.Intn(100000)
	}
	if period < 3 {
		return -1
	}
	return g.Intn(period - 1)
}

// boxes generates an age distribution; returns the field and the number of adds per mailbox.
func boxes(g *vh.Gen, period int, n int) (string, map[string]int, []string) {
	var parts []string
	adds := map[string]int{}
	var names []string
	perm := g.Perm(len(pool))
	for i := 0; i < n; i++ {
		mb := pool[perm[i]]
		names = append(names, mb)
		if g.Chance(0.12) {
			parts = append(parts, vh.HS(mb)+":")
			adds[mb] = 1
			continue
		}
		m := 1 + g.Intn(6)
		var ages []string
		style := g.Intn(4) // 0 mixed, 1 all expired, 2 all young, 3 mixed
		for j := 0; j < m; j++ {
			exp := g.Chance(0.5)
			if style == 1 {
				exp = true
			} else if style == 2 {
				exp = false
			}
			a := age(g, period, exp)
			if a < 0 {
				a = age(g, period, true)
			}
			ages = append(ages, fmt.Sprint(a))
		}
		adds[mb] = m
		parts = append(parts, vh.HS(mb)+":"+strings.Join(ages, ","))
	}
	if len(parts) == 0 {
		return "-", adds, names
	}
	return strings.Join(parts, ";"), adds, names
}

var periods = []int{0, 5, 60, 3600, 86400, 30}

func genInj(g *vh.Gen, store string, adds map[string]int, names []string, period int) string {
	n := 1 + g.Intn(3)
	var res []string
	for i := 0; i < n; i++ {
		mb := pool[g.Intn(len(pool))]
		if len(names) > 0 && g.Chance(0.8) {
			mb = names[g.Intn(len(names))]
		}
		var op string
		switch g.Intn(4) {
		case 0:
			if period >= 5 {
				op = "add:" + vh.HS(mb)
				break
			}
			fallthrough
		case 1:
			op = fmt.Sprintf("rm:%s:%d", vh.HS(mb), g.Intn(adds[mb]+1))
		case 2:
			op = "purge:" + vh.HS(mb)
		default:
			op = fmt.Sprintf("seen:%s:%d", vh.HS(mb), g.Intn(adds[mb]+1))
		}
		var pos string
		switch {
		case store == "file" && g.Chance(0.3):
			pos = g.Pick("p2", "p3")
		case g.Chance(0.5):
			pos = fmt.Sprintf("v%d", 1+g.Intn(4))
		default:
			pos = fmt.Sprintf("r%d", 1+g.Intn(5))
		}
		res = append(res, pos+"/"+op)
	}
	return strings.Join(res, ",")
}

func gen(g *vh.Gen) {
	// the assembled system (server.FullAssembly + Services.Start), one child process per case
	asmsys.Gen(g, "asm12")
	// undisturbed scans: every age distribution × period × store
	for i := 0; i < g.N(100, 2500); i++ {
		p := periods[g.Intn(len(periods))]
		b, _, _ := boxes(g, p, g.Intn(6))
		for _, st := range []string{"mem", "file"} {
			g.Emit("scan", st, fmt.Sprint(p), b, "-", "-")
		}
	}
	// the ENVIRONMENT of the file store: the storage path a symbolic link, <path>/mail a symbolic link to a directory
	// elsewhere, the first-level hash directories replaced by symbolic links after the mail has arrived — deliveries
	// and listings go through the links, and so must the scan: same oracle, undisturbed and with interference
	for _, lay := range []string{"pathlink", "maillink", "bucketlink"} {
		for i := 0; i < g.N(4, 150); i++ {
			p := periods[1+g.Intn(len(periods)-1)]
			b, adds, names := boxes(g, p, 1+g.Intn(5))
			in := "-"
			if i%2 == 1 {
				in = genInj(g, "file", adds, names, p)
			}
			g.Emit("scan", "file."+lay, fmt.Sprint(p), b, in, "-")
		}
		g.Emit("slow", "file."+lay, "3600", vh.HS("b")+":9000,9999;"+vh.HS("a")+":9000,5", vh.HS("b"))
	}
	// large mailboxes (cap 0): 1100 and more messages in one mailbox, the oldest k of them expired — k small and
	// k > 1000 —, next to a small control mailbox; afterwards every id is asked for on its own. The memory store in
	// the quick tier; the file store (each delivery and removal rewrites the index: seconds per case) and a larger
	// mailbox in the thorough tier.
	ctl := vh.HS("ctl") + ":9000,5,9100"
	large := []string{vh.HS("big") + ":9000*30,10*1070;" + ctl, ctl + ";" + vh.HS("big") + ":9000*1050,10*50"}
	for _, b := range large {
		g.Emit("scan", "mem", "3600", b, "-", "-")
	}
	if g.Tier == "thorough" {
		for _, b := range large {
			g.Emit("scan", "file", "3600", b, "-", "-")
		}
		b := vh.HS("big") + ":9000*1100,10*1100;" + ctl
		g.Emit("scan", "mem", "3600", b, "-", "-")
		g.Emit("scan", "file", "3600", b, "-", "-")
		g.Emit("scan", "mem", "3600", vh.HS("big")+":9000*5,10*1500,20*1495;"+ctl, "r3/add:"+vh.HS("big"), "-")
	}
	// deliveries / removals / purges forced between the scanner's steps
	for i := 0; i < g.N(60, 2000); i++ {
		p := periods[1+g.Intn(len(periods)-1)]
		b, adds, names := boxes(g, p, 1+g.Intn(5))
		for _, st := range []string{"mem", "file"} {
			g.Emit("scan", st, fmt.Sprint(p), b, genInj(g, st, adds, names, p), "-")
		}
	}
	// id reuse: while the scanner holds a snapshot of a mailbox, another client removes every expired
	// message of it that is still there (or purges it) and fresh mail arrives — before the scan's first
	// removal and between removals. The fresh mail must survive (handles / ids are never reused).
	for i := 0; i < g.N(40, 1500); i++ {
		p := periods[1+g.Intn(len(periods)-1)]
		nb := 1 + g.Intn(3)
		var parts []string
		var inj []string
		pos := fmt.Sprintf("r%d", 1+g.Intn(3))
		if g.Chance(0.5) {
			pos = "r1"
		}
		perm := g.Perm(len(pool))
		for b := 0; b < nb; b++ {
			mb := pool[perm[b]]
			m := 1 + g.Intn(4)
			var ages []string
			var exp []int
			allExpired := g.Chance(0.7)
			for j := 0; j < m; j++ {
				e := allExpired || g.Chance(0.5)
				a := age(g, p, e)
				if a < 0 {
					a, e = age(g, p, true), true
				}
				if e {
					exp = append(exp, j)
				}
				ages = append(ages, fmt.Sprint(a))
			}
			parts = append(parts, vh.HS(mb)+":"+strings.Join(ages, ","))
			if len(exp) == 0 {
				continue
			}
			if g.Chance(0.25) {
				inj = append(inj, pos+"/purge:"+vh.HS(mb))
			} else {
				for _, k := range exp {
					inj = append(inj, fmt.Sprintf("%s/rm:%s:%d", pos, vh.HS(mb), k))
				}
			}
			for n := 1 + g.Intn(2); n > 0; n-- {
				inj = append(inj, pos+"/add:"+vh.HS(mb))
			}
		}
		in := "-"
		if len(inj) > 0 {
			in = strings.Join(inj, ",")
		}
		for _, st := range []string{"mem", "file"} {
			g.Emit("scan", st, fmt.Sprint(p), strings.Join(parts, ";"), in, "-")
		}
	}
	// a delivery overlapping the removal that empties its mailbox: it has looked the mailbox up before the
	// scanner's RemoveMessage and takes the mailbox lock right after it; the fresh mail must be there afterwards
	for i := 0; i < g.N(20, 600); i++ {
		p := periods[1+g.Intn(len(periods)-1)]
		mb := pool[g.Intn(len(pool))]
		m := 1 + g.Intn(3)
		var ages []string
		for j := 0; j < m; j++ {
			ages = append(ages, fmt.Sprint(age(g, p, true)))
		}
		b := vh.HS(mb) + ":" + strings.Join(ages, ",")
		in := fmt.Sprintf("r%d/padd:%s", 1+g.Intn(m), vh.HS(mb))
		if g.Chance(0.3) {
			in += fmt.Sprintf(",r%d/add:%s", 1+g.Intn(m), vh.HS(mb))
		}
		for _, st := range []string{"mem", "file"} {
			g.Emit("scan", st, fmt.Sprint(p), b, in, "-")
		}
	}
	// a delivery still in flight during the scan: its body reader parks after the first chunk (the message is half
	// way into the store), DoScan runs on the same store — most often the mailbox holds only expired mail, so the
	// scanner's last removal empties it —, then the rest of the body arrives. Afterwards the new message must be
	// listed AND its content must be the bytes delivered.
	for i := 0; i < g.N(12, 400); i++ {
		p := periods[1+g.Intn(len(periods)-1)]
		nb := 1 + g.Intn(3)
		perm := g.Perm(len(pool))
		var parts []string
		target := pool[perm[0]]
		for b := 0; b < nb; b++ {
			m := 1 + g.Intn(3)
			allExpired := b == 0 && g.Chance(0.75) || b > 0 && g.Chance(0.4)
			var ages []string
			for j := 0; j < m; j++ {
				a := age(g, p, allExpired || g.Chance(0.5))
				if a < 0 {
					a = age(g, p, true)
				}
				ages = append(ages, fmt.Sprint(a))
			}
			parts = append(parts, vh.HS(pool[perm[b]])+":"+strings.Join(ages, ","))
		}
		if g.Chance(0.15) {
			target = pool[perm[nb]] // a mailbox that does not exist yet
		}
		for _, st := range []string{"file", "mem"} {
			g.Emit("slow", st, fmt.Sprint(p), strings.Join(parts, ";"), vh.HS(target))
		}
	}
	// a delivery to a mailbox that is already EMPTY when the pass starts (its mail went earlier): the delivery has looked
	// the mailbox up before the walk collects the mailboxes and takes the mailbox lock after the first callback —
	// whatever the walk does with empty mailboxes, the fresh mail must be there afterwards
	for i := 0; i < g.N(8, 300); i++ {
		p := periods[1+g.Intn(len(periods)-1)]
		perm := g.Perm(len(pool))
		target := pool[perm[0]]
		parts := []string{vh.HS(target) + ":"}
		for b := 1; b <= g.Intn(3); b++ {
			if g.Chance(0.3) {
				parts = append(parts, vh.HS(pool[perm[b]])+":")
				continue
			}
			a := age(g, p, g.Chance(0.6))
			if a < 0 {
				a = age(g, p, true)
			}
			parts = append(parts, fmt.Sprintf("%s:%d", vh.HS(pool[perm[b]]), a))
		}
		g.Shuffle(len(parts), func(i, j int) { parts[i], parts[j] = parts[j], parts[i] })
		for _, st := range []string{"mem", "file"} {
			g.Emit("scan", st, fmt.Sprint(p), strings.Join(parts, ";"), "pv/padd:"+vh.HS(target), "-")
		}
	}
	// cancellation INSIDE a mailbox with many expired messages (default-like RetentionSleep): the scan finishes the
	// mailbox's removals and returns promptly — the time a scan may take after the cancel does not grow by a sleep per message
	for _, n := range []int{150, g.Pick2(37, 400)} {
		for _, st := range []string{"mem", "file"} {
			g.Emit("scan", st, "3600", fmt.Sprintf("%s:9000*%d,5;%s:9000,7", vh.HS("big"), n, vh.HS("zz")), "-", fmt.Sprintf("%dr%d", 1+g.Intn(2), 3+g.Intn(8)))
		}
	}
	// another client removes ONE of several expired messages of a mailbox between the scanner's snapshot and its
	// (first) removal call there: the others must still go
	for i := 0; i < g.N(6, 300); i++ {
		p := periods[1+g.Intn(len(periods)-1)]
		mb := pool[g.Intn(len(pool))]
		m := 3 + g.Intn(5)
		var ages []string
		for j := 0; j < m; j++ {
			ages = append(ages, fmt.Sprint(age(g, p, true)))
		}
		if a := age(g, p, false); a >= 0 && g.Chance(0.5) {
			ages = append(ages, fmt.Sprint(a))
		}
		in := fmt.Sprintf("r1/rm:%s:%d", vh.HS(mb), g.Intn(m-1))
		for _, st := range []string{"mem", "file"} {
			g.Emit("scan", st, fmt.Sprint(p), vh.HS(mb)+":"+strings.Join(ages, ","), in, "-")
		}
	}
	// cancellation at a callback boundary (with and without interference)
	for i := 0; i < g.N(15, 250); i++ {
		p := periods[1+g.Intn(len(periods)-1)]
		b, adds, names := boxes(g, p, 2+g.Intn(4))
		in := "-"
		if g.Chance(0.4) {
			in = genInj(g, "mem", adds, names, p)
		}
		c := fmt.Sprint(1 + g.Intn(3))
		for _, st := range []string{"mem", "file"} {
			g.Emit("scan", st, fmt.Sprint(p), b, in, c)
		}
	}
	// thorough tier: the run loop really scans — one minute after Start — and then exits on cancel
	if g.Tier == "thorough" {
		for _, st := range []string{"mem", "file"} {
			g.Emit("start", st, "3600", "63000", vh.HS("a")+":5,90000,40,3800;"+vh.HS("b")+":7000;"+vh.HS("c")+":9")
		}
	}
	// cancellation with RetentionSleep 0 / 1 ns: at the callback end the expired sleep timer races with ctx.Done,
	// the scan may stop there or go on; whatever it does it deletes nothing young and keeps what it did not reach
	for i := 0; i < g.N(15, 400); i++ {
		p := periods[1+g.Intn(len(periods)-1)]
		b, _, _ := boxes(g, p, 2+g.Intn(4))
		c := fmt.Sprint(1+g.Intn(2)) + g.Pick("z", "n")
		for _, st := range []string{"mem", "file"} {
			g.Emit("scan", st, fmt.Sprint(p), b, "-", c)
		}
	}
	// arrival time, not the mail's own Date: header, is what retention goes by: mail delivered through the real
	// StoreManager.Deliver with Date headers days / years in the past, in the future, missing or garbled
	hdrDates := []string{"-86400", "-31536000", "-3600", "-30", "0", "40", "86400", "315360000", "x", "g", "-7", "7200"}
	for i := 0; i < g.N(12, 300); i++ {
		n := 2 + g.Intn(5)
		ds := make([]string, n)
		for j := range ds {
			ds[j] = hdrDates[g.Intn(len(hdrDates))]
		}
		st := g.Pick("mem", "file")
		if i%4 == 3 {
			// a period of 1 s and 3 s of waiting: every one of them has arrived more than a period ago and must go,
			// a Date header in the future protects nothing
			g.Emit("dlv", st, "1", "3", strings.Join(ds, ","))
		} else {
			// just arrived: must survive whatever the Date header says
			g.Emit("dlv", st, fmt.Sprint(g.Pick2(5, 60, 3600, 86400)), "0", strings.Join(ds, ","))
		}
	}
	// the run loop: disabled for period <= 0; exits on cancel; Join returns
	for i := 0; i < g.N(6, 60); i++ {
		b, _, _ := boxes(g, 0, 1+g.Intn(3))
		st := g.Pick("mem", "file")
		switch i % 3 {
		case 0:
			g.Emit("start", st, "0", "-1", b)
		case 1:
			g.Emit("start", st, fmt.Sprint(-1-g.Intn(100)), "-1", b)
		default:
			g.Emit("start", st, fmt.Sprint(1+g.Intn(100)), fmt.Sprint(g.Intn(60)), b)
		}
	}
}

// Driver for C01 (accepted mail is stored exactly once per accepted recipient, and only then):
// complete SMTP dialogues (several transactions, valid / rejected / malformed / duplicate
// recipients, RSET / EHLO / garbage interleaved) against a real session, real StoreManager and
// a real mem or file store; observation = reply codes + every mailbox's content afterwards.
package main

import (
	"bytes"
	"os"

	"verifharness/smtpd"
	"verifharness/vh"
)

func gen(g *vh.Gen) {
	o := smtpd.Opts{Garbage: 0.12, MaxBody: 200, Caps: true}
	for i := 0; i < g.N(400, 20000); i++ {
		c, pool := smtpd.GenCfg(g, o)
		stream := smtpd.GenDialogue(g, c, pool, o)
		g.Emit("smtp", append(c.Fields(), vh.H(stream))...)
	}
	// clients that do not pipeline everything: the bytes after a DATA command (or after every line, or after some
	// lines) reach the server only when it has read what came before - the block and whatever the client queued behind it
	// then arrive together
	ol := smtpd.Opts{Garbage: 0.04, MaxBody: 80}
	for i := 0; i < g.N(40, 2000); i++ {
		c, pool := smtpd.GenCfg(g, ol)
		stream := smtpd.GenDialogue(g, c, pool, ol)
		g.Emit("smtp", append(c.Fields(), smtpd.LockStepField(g, stream, i%3))...)
	}
	// small message limits with bodies on both sides of them, with and without (truthful, lying) SIZE parameters: a
	// transaction refused for its size adds nothing to any mailbox, one within the limit is stored whole
	os := smtpd.Opts{Garbage: 0.03, MaxBody: 60, SizeParams: true, SmallLimit: true, Caps: true}
	for i := 0; i < g.N(60, 3000); i++ {
		c, pool := smtpd.GenCfg(g, os)
		c.DA, c.DS = true, true
		stream := smtpd.GenDialogue(g, c, pool, os)
		g.Emit("smtp", append(c.Fields(), vh.H(stream))...)
	}
	// one destination mailbox named through a stored and a discarded domain in one transaction (see smtpd.GenCollision)
	gs := g.Side("c01-collision")
	for i := 0; i < g.N(40, 2000); i++ {
		c, pool := smtpd.GenCfg(gs, smtpd.Opts{})
		stream := smtpd.GenCollision(gs, &c, pool)
		gs.Emit("smtp", append(c.Fields(), vh.H(stream))...)
	}
}

// genRemoveRace: two sessions to the same recipients; while the second delivers, another client removes what the
// first one stored (on the memory store inside the delivery's lookup/lock gap).
func genRemoveRace(g *vh.Gen) {
	o := smtpd.Opts{Garbage: 0.02, MaxBody: 60}
	for i := 0; i < g.N(60, 2000); i++ {
		c, pool := smtpd.GenCfg(g, o)
		c.DA, c.DS, c.Rej, c.Dis = true, true, "", ""
		if g.Chance(0.7) {
			c.Store = "mem"
		}
		first := smtpd.GenDialogue(g, c, pool, o)
		second := first
		if g.Chance(0.5) {
			second = smtpd.GenDialogue(g, c, pool, o)
		}
		g.Emit("smtprm", append(c.Fields(), vh.H(first)+"+"+vh.H(second))...)
	}
}

// genAsm: well-formed dialogues (nothing after QUIT) for the assembled-system stream.
func genAsm(g *vh.Gen) {
	o := smtpd.Opts{Garbage: 0.04, MaxBody: 60}
	for i := 0; i < g.N(40, 1500); i++ {
		c, pool := smtpd.GenCfg(g, o)
		stream := smtpd.GenDialogue(g, c, pool, o)
		// mailbox names with '/' cannot be addressed through the REST route (see K-C14): keep them out of this stream
		stream = bytes.ReplaceAll(stream, []byte("x/y"), []byte("xsy"))
		if !bytes.HasSuffix(bytes.ToUpper(bytes.TrimRight(stream, "\r\n")), []byte("QUIT")) {
			stream = append(stream, []byte("QUIT\r\n")...)
		}
		g.Emit("asm", append(c.Fields(), vh.H(stream))...)
	}
}

func exec(kind string, in []string) []string {
	switch kind {
	case "smtp":
		return smtpd.Exec(in)
	case "asm":
		return smtpd.ExecAsm(in)
	case "smtprm":
		return smtpd.ExecRemoveRace(in)
	}
	return []string{"UNKNOWN-KIND"}
}

func main() {
	if len(os.Args) > 1 && os.Args[1] == "asmchild" {
		smtpd.AsmChild()
		return
	}
	vh.Main(func(g *vh.Gen) { gen(g); genRemoveRace(g); genAsm(g) }, exec)
}

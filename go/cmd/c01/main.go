// Driver for C01 (accepted mail is stored exactly once per accepted recipient, and only then):
// complete SMTP dialogues (several transactions, valid / rejected / malformed / duplicate
// recipients, RSET / EHLO / garbage interleaved) against a real session, real StoreManager and
// a real mem or file store; observation = reply codes + every mailbox's content afterwards.
package main

import (
	"verifharness/smtpd"
	"verifharness/vh"
)

func gen(g *vh.Gen) {
	o := smtpd.Opts{Garbage: 0.12, MaxBody: 200}
	for i := 0; i < g.N(400, 20000); i++ {
		c, pool := smtpd.GenCfg(g, o)
		stream := smtpd.GenDialogue(g, c, pool, o)
		g.Emit("smtp", append(c.Fields(), vh.H(stream))...)
	}
}

func exec(kind string, in []string) []string {
	if kind != "smtp" {
		return []string{"UNKNOWN-KIND"}
	}
	return smtpd.Exec(in)
}

func main() { vh.Main(gen, exec) }

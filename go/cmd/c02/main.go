// Driver for C02 (message content survives byte-for-byte from SMTP DATA to every read
// interface): a body (as client lines, or as raw DATA wire bytes) is sent through a real SMTP
// session and read back through Store.Source(), REST /source, web-UI /source and POP3 RETR on a
// real mem or file store; sizes reported by the store, the REST listing and POP3 LIST are read too.
//
//	lines <store> <l1,l2,...>   (hex lines; the client stuffs them)   | raw <store> <wire>
//	  => <smtp replies> <store source (timestamp masked)> <store size> <rest src|=> <webui src|=>
//	     <pop3 retr (CRLF->LF normalised) |=> <rest list size> <pop3 list size> <hdr facts:status>
package main

import (
	"bufio"
	"bytes"
	"context"
	"encoding/json"
	"fmt"
	"io"
	"net"
	"net/http"
	"net/http/httptest"
	"net/textproto"
	"os"
	osexec "os/exec"
	"strconv"
	"strings"
	"sync"
	"time"

	"github.com/inbucket/inbucket/v3/pkg/config"
	"github.com/inbucket/inbucket/v3/pkg/message"
	"github.com/inbucket/inbucket/v3/pkg/msghub"
	"github.com/inbucket/inbucket/v3/pkg/rest"
	"github.com/inbucket/inbucket/v3/pkg/server/pop3"
	"github.com/inbucket/inbucket/v3/pkg/server/web"
	"github.com/inbucket/inbucket/v3/pkg/webui"
	"verifharness/smtpd"
	"verifharness/vh"
)

// swapMgr lets the process-global web router serve whichever environment is current.
type swapMgr struct{ message.Manager }

var (
	cur     = &swapMgr{}
	webOnce sync.Once
)

func setupWeb() {
	webOnce.Do(func() {
		webui.SetupRoutes(web.Router.PathPrefix("/serve/").Subrouter())
		rest.SetupRoutes(web.Router.PathPrefix("/api/").Subrouter())
		web.NewServer(&config.Root{Web: config.Web{UIDir: "/nonexistent"}}, cur, &msghub.Hub{})
	})
}

func httpGet(path string) (int, []byte) {
	ctx, cancel := context.WithTimeout(context.Background(), 30*time.Second)
	defer cancel()
	req, _ := http.NewRequestWithContext(ctx, http.MethodGet, path, nil)
	req.Header.Add("Accept", "application/json")
	w := httptest.NewRecorder()
	web.Router.ServeHTTP(w, req)
	return w.Code, w.Body.Bytes()
}

var hostile = []string{".", "..", "...x", ".leading dot", "\x00nul\x00", "caf\xe9 \xff\xfe", "bare\rcr", "\rstarts", "ends\r", "", "",
	"plain text", "Subject: x", "From: <a@b.org>", ".\r", "a.b", " .", "\t", "=", "line with trailing space ",
	"\xef\xbb\xbf", "\xef\xbb\xbftext after a byte order mark", "\xef\xbb\xbfSubject: bom before a header", "\xfe\xff", "\xef\xbb", "\x1b[0m", "\x7f"}

func genLines(g *vh.Gen, maxLen int) []string {
	n := g.Intn(9)
	ls := make([]string, 0, n+3)
	if g.Chance(0.06) { // the very first bytes of the content are special to some decoders
		ls = append(ls, g.Pick("\xef\xbb\xbf", "\xef\xbb\xbfhello", "\xef\xbb\xbfSubject: s", "\xff\xfe", "\x00", " leading space", "\tleading tab", ">From x"))
	} else if g.Chance(0.6) {
		ls = append(ls, "From: <a@b.org>", "Subject: "+g.Pick("s", "", "x y"), "")
	} else if g.Chance(0.9) {
		ls = append(ls, "") // empty header block, so that the payload is accepted
	}
	for i := 0; i < n; i++ {
		switch {
		case g.Chance(0.12):
			ls = append(ls, strings.Repeat(g.Pick("a", ".", "xy", "\r", "\xc3\xa9"), 1+g.Intn(maxLen)))
		case g.Chance(0.1):
			b := make([]byte, g.Intn(40))
			for j := range b {
				b[j] = byte(g.Intn(256))
				if b[j] == '\n' {
					b[j] = '\r'
				}
			}
			ls = append(ls, string(b))
		default:
			ls = append(ls, g.Pick(hostile...))
		}
	}
	return ls
}

func gen(g *vh.Gen) {
	small, big := g.N(300, 4000), g.N(12, 300)
	for i := 0; i < small; i++ {
		ls := genLines(g, 200)
		h := make([]string, len(ls))
		for j, l := range ls {
			h[j] = vh.HS(l)
		}
		f := "-"
		if len(h) > 0 {
			f = strings.Join(h, ",")
		}
		g.Emit("lines", g.Pick("mem", "file"), f)
	}
	for i := 0; i < big; i++ { // very long lines (beyond 64 KiB) and large bodies
		ls := genLines(g, 100)
		ls = append(ls, strings.Repeat(g.Pick("x", ".", "ab"), g.Pick2(4095, 4096, 4097, 65535, 65536, 70000, 300000)/1))
		if g.Tier == "thorough" && g.Chance(0.2) {
			for k := 0; k < 40000; k++ {
				ls = append(ls, g.Pick(hostile...))
			}
		}
		ls = append(ls, genLines(g, 50)...)
		h := make([]string, len(ls))
		for j, l := range ls {
			h[j] = vh.HS(l)
		}
		g.Emit("lines", g.Pick("mem", "file"), strings.Join(h, ","))
	}
	// block boundaries of buffered writers: a pad line of d bytes, then thousands of dot-led lines of one length, so
	// that for some d a dot-led line ends exactly at every multiple of 4 KiB .. 64 KiB of the stuffed stream
	for _, dl := range []string{".", ".a", "..", ".abc"} {
		for d := 0; d < len(dl)+3; d++ {
			ls := []string{"Subject: boundary", "", strings.Repeat("x", d)}
			for k := 0; k < 70000/(len(dl)+3); k++ {
				ls = append(ls, dl)
			}
			h := make([]string, len(ls))
			for j, l := range ls {
				h[j] = vh.HS(l)
			}
			g.Emit("lines", g.Pick("mem", "file"), strings.Join(h, ","))
		}
	}
	// incompressible content (uniform random bytes) of 2 KiB .. 70 KiB in lines of random length: whatever a store does
	// to content on its way to the disk (compression, de-duplication, hashing) has a path for content it cannot shrink
	for k := 0; k < g.N(6, 120); k++ {
		total := g.Pick2(2048, 4095, 4096, 5000, 20000, 65536, 70000)
		ls := []string{"Subject: noise " + strconv.Itoa(total), ""}
		for cur := 0; cur < total; {
			n := 1 + g.Intn(g.Pick2(60, 300, 998, 5000))
			if n > total-cur {
				n = total - cur
			}
			b := make([]byte, n)
			for j := range b {
				b[j] = byte(g.Intn(256))
				if b[j] == '\n' {
					b[j] = 0xfe
				}
			}
			ls = append(ls, string(b))
			cur += n + 1
		}
		h := make([]string, len(ls))
		for j, l := range ls {
			h[j] = vh.HS(l)
		}
		g.Emit("lines", g.Pick("mem", "file", "file"), strings.Join(h, ","))
	}
	// total sizes just below and at powers of two: the message as DATA carried it is shorter than the stored source by
	// the trace headers (about 150 bytes), so a size hint taken from one and a buffer filled with the other disagree
	// only in this band
	for _, bnd := range []int{4096, 8192, 16384, 32768, 65536, 131072, 1048576, 4194304} {
		for k := 0; k < g.N(5, 60) && (bnd <= 65536 || k < g.N(1, 6)); k++ {
			total := bnd - g.Intn(260) + g.Intn(3)
			ls := []string{"Subject: size " + strconv.Itoa(total), ""}
			cur := len(ls[0]) + 2
			for total-cur > 72 {
				ls = append(ls, strings.Repeat(g.Pick("x", "y", "z"), 70))
				cur += 71
			}
			if total-cur >= 1 {
				ls = append(ls, strings.Repeat("e", total-cur-1))
			}
			h := make([]string, len(ls))
			for j, l := range ls {
				h[j] = vh.HS(l)
			}
			g.Emit("lines", g.Pick("mem", "file", "file"), strings.Join(h, ","))
		}
	}
	// the assembled server (child process: FullAssembly + Services.Start, real SMTP / HTTP / POP3 listeners, Go's default
	// HTTP client, i.e. with gzip offered): stored sizes around multiples of 32 KiB (copy-buffer boundaries of the HTTP
	// path) and ordinary hostile bodies
	overhead := len("Return-Path: <sender@x.org>\r\n") + len("Received: from client.example ([127.0.0.1]) by inbucket\r\n  for <box>; ") + 37 + 2
	for _, k := range []int{1, 2, 3} {
		for _, r := range []int{0, 1, 2, 700, 1399, 1400, 32767} {
			if g.Tier != "thorough" && (k*7+r)%3 == 2 {
				continue
			}
			total := 32768*k + r - overhead // payload bytes as stored (LF line ends)
			ls := []string{"Subject: sized", ""}
			total -= len("Subject: sized\n\n")
			for total > 80 {
				ls = append(ls, strings.Repeat("abcdefghi ", 7)+"x") // 71 + LF
				total -= 72
			}
			if total > 0 {
				ls = append(ls, strings.Repeat("y", total-1))
			}
			h := make([]string, len(ls))
			for j, l := range ls {
				h[j] = vh.HS(l)
			}
			g.Emit("asmsrc", g.Pick("mem", "file", "file"), strings.Join(h, ","))
		}
	}
	for i := 0; i < g.N(10, 300); i++ {
		ls := genLines(g, 200)
		h := make([]string, len(ls))
		for j, l := range ls {
			h[j] = vh.HS(l)
		}
		f := "-"
		if len(h) > 0 {
			f = strings.Join(h, ",")
		}
		g.Emit("asmsrc", g.Pick("mem", "file"), f)
	}
	// one transaction, several deliveries: 2-4 recipients (distinct mailboxes, the same one twice): EVERY copy
	// must carry the client's bytes, through every read interface
	for i := 0; i < g.N(60, 1500); i++ {
		ls := genLines(g, 80)
		h := make([]string, len(ls))
		for j, l := range ls {
			h[j] = vh.HS(l)
		}
		f := "-"
		if len(h) > 0 {
			f = strings.Join(h, ",")
		}
		n := 2 + g.Intn(3)
		rc := make([]string, n)
		for j := range rc {
			rc[j] = g.Pick("box", "two", "three", "box")
		}
		g.Emit("multi", g.Pick("mem", "file"), strings.Join(rc, ","), f)
	}
	// several transactions on one connection, all to one mailbox, the later bodies not longer than the earlier ones;
	// EVERY message is read back after the LAST one was stored (a store that keeps a reference into a buffer it
	// reuses would hand out a later message's bytes for an earlier one); memory store with and without its size
	// limit (set far above the total), file store
	for i := 0; i < g.N(24, 600); i++ {
		ls := genLines(g, 60)
		h := make([]string, len(ls))
		for j, l := range ls {
			h[j] = vh.HS(l)
		}
		f := "-"
		if len(h) > 0 {
			f = strings.Join(h, ",")
		}
		g.Emit("seq", g.Pick("mem", "mem::8192", "mem::8192", "mem:5:8192", "file", "file:5", "file:1", "file:2", "mem:1", "file:1"), strconv.Itoa(2+g.Intn(3)), f)
	}
	// raw wire: encodings a lenient client may produce (bare LF line ends, LF-only terminator,
	// missing final newline before the terminator line is impossible on the wire; stray CRs)
	for i := 0; i < g.N(150, 3000); i++ {
		var b bytes.Buffer
		for _, l := range genLines(g, 60) {
			if strings.HasPrefix(l, ".") {
				b.WriteByte('.')
			}
			b.WriteString(l)
			b.WriteString(g.Pick2s("\r\n", "\r\n", "\n", "\r\r\n"))
		}
		b.WriteString(g.Pick2s(".\r\n", ".\r\n", ".\n"))
		g.Emit("raw", g.Pick("mem", "file"), vh.H(b.Bytes()))
	}
}

func pop3Fetch(env *smtpd.Env, mailbox string) (retr []byte, listSize string, err error) {
	return pop3FetchN(env, mailbox, 1)
}

func pop3FetchN(env *smtpd.Env, mailbox string, n int) (retr []byte, listSize string, err error) {
	srv, err := pop3.NewServer(config.POP3{Domain: "inbucket", Timeout: 60 * time.Second}, env.Store)
	if err != nil {
		return nil, "", err
	}
	ln, err := net.Listen("tcp4", "127.0.0.1:0")
	if err != nil {
		return nil, "", err
	}
	defer ln.Close()
	done := make(chan struct{})
	go func() {
		defer close(done)
		c, err := ln.Accept()
		if err == nil {
			srv.VerifServe(1, c)
		}
	}()
	retr, listSize, err = pop3Over(ln.Addr().String(), mailbox, n)
	<-done
	return retr, listSize, err
}

// pop3Over fetches message n of the mailbox over a POP3 listener at addr.
func pop3Over(addr, mailbox string, n int) (retr []byte, listSize string, err error) {
	c, err := net.Dial("tcp4", addr)
	if err != nil {
		return nil, "", err
	}
	defer c.Close()
	go func() {
		fmt.Fprintf(c, "USER %s\r\nPASS x\r\nLIST %d\r\nRETR %d\r\nQUIT\r\n", mailbox, n, n)
	}()
	c.SetReadDeadline(time.Now().Add(120 * time.Second))
	out, _ := io.ReadAll(c)
	// greeting, USER, PASS, LIST 1 are single lines
	rest := out
	var lines []string
	for i := 0; i < 4; i++ {
		j := bytes.Index(rest, []byte("\r\n"))
		if j < 0 {
			return nil, "", fmt.Errorf("short pop3 dialogue: %q", out[:min(len(out), 200)])
		}
		lines = append(lines, string(rest[:j]))
		rest = rest[j+2:]
	}
	if f := strings.Fields(lines[3]); len(f) >= 3 && f[0] == "+OK" {
		listSize = f[2]
	} else {
		listSize = "X"
	}
	// RETR: +OK line, dot-stuffed lines, "."
	j := bytes.Index(rest, []byte("\r\n"))
	if j < 0 || !bytes.HasPrefix(rest, []byte("+OK")) {
		return nil, listSize, fmt.Errorf("RETR refused: %q", rest[:min(len(rest), 100)])
	}
	rest = rest[j+2:]
	var body bytes.Buffer
	for {
		j := bytes.Index(rest, []byte("\r\n"))
		if j < 0 {
			return body.Bytes(), listSize, fmt.Errorf("unterminated RETR")
		}
		l := rest[:j]
		rest = rest[j+2:]
		if string(l) == "." {
			break
		}
		if bytes.HasPrefix(l, []byte(".")) {
			l = l[1:]
		}
		body.Write(l)
		body.WriteString("\n")
	}
	if !bytes.HasPrefix(rest, []byte("+OK")) { // reply to QUIT must follow directly
		return body.Bytes(), listSize, fmt.Errorf("stray output after RETR: %q", rest[:min(len(rest), 100)])
	}
	return body.Bytes(), listSize, nil
}

func same(a, ref []byte) string {
	if bytes.Equal(a, ref) {
		return "="
	}
	return "D" + vh.H(a)
}

func exec(kind string, in []string) []string {
	var wire []byte
	switch kind {
	case "lines":
		var ls []string
		if in[1] != "-" {
			for _, h := range strings.Split(in[1], ",") {
				ls = append(ls, vh.US(h))
			}
		}
		wire = []byte(smtpd.StuffLines(ls))
	case "raw":
		wire = vh.U(in[1])
	case "multi":
		return execMulti(in)
	case "seq":
		return execSeq(in)
	case "asmsrc":
		return execAsmSrc(in)
	default:
		return []string{"UNKNOWN-KIND"}
	}
	setupWeb()
	c := smtpd.Cfg{Naming: "local", MaxRcpt: 10, MaxBytes: 50000000, DA: true, DS: true, Store: in[0]}
	env, err := smtpd.NewEnv(c, "", config.Storage{})
	if err != nil {
		return []string{"SETUPERR", vh.HS(err.Error())}
	}
	defer env.Close()
	cur.Manager = env.Manager
	stream := append([]byte("HELO client.example\r\nMAIL FROM:<sender@x.org>\r\nRCPT TO:<box@y.org>\r\nDATA\r\n"), wire...)
	stream = append(stream, []byte("QUIT\r\n")...)
	out, err := env.Session(stream)
	status := "ok"
	if err != nil {
		status = "err:" + vh.HS(err.Error())
	}
	replies := strings.Join(smtpd.ReplyTokens(out), ",")
	hdr := "nocall"
	if len(env.Manager.Calls) > 0 {
		hdr = vh.B(env.Manager.Calls[0].HdrOK)
	}
	status = hdr + ":" + status
	ms, err := env.Store.GetMessages("box")
	if err != nil || len(ms) != 1 {
		return []string{replies, "NOMSG", "0", "-", "-", "-", "-", "-", status}
	}
	m := ms[0]
	r, err := m.Source()
	if err != nil {
		return []string{replies, "NOSRC", "0", "-", "-", "-", "-", "-", status}
	}
	src, _ := io.ReadAll(r)
	r.Close()
	_, restSrc := httpGet("http://localhost/api/v1/mailbox/box/" + m.ID() + "/source")
	_, uiSrc := httpGet("http://localhost/serve/mailbox/box/" + m.ID() + "/source")
	_, listJSON := httpGet("http://localhost/api/v1/mailbox/box")
	restSize := "X"
	var hdrs []map[string]interface{}
	if json.Unmarshal(listJSON, &hdrs) == nil && len(hdrs) == 1 {
		if f, ok := hdrs[0]["size"].(float64); ok {
			restSize = strconv.FormatInt(int64(f), 10)
		}
	}
	retr, popSize, perr := pop3Fetch(env, "box")
	if perr != nil {
		status = hdr + ":pop3:" + vh.HS(perr.Error())
	}
	norm := bytes.ReplaceAll(src, []byte("\r\n"), []byte("\n"))
	return []string{replies, vh.H(smtpd.MaskTimestamp(src, "box")), strconv.FormatInt(m.Size(), 10),
		same(restSrc, src), same(uiSrc, src), same(retr, norm), restSize, popSize, status}
}

// execMulti: multi <store> <rcpt mailboxes> <lines> => <replies> <copies> <status>, one token per stored copy in
// the order mailbox-of-first-RCPT first, listing order inside a mailbox:
// <mailbox>.<n>:<store source, timestamp masked>:<store size>:<rest>:<webui>:<pop3>:<rest list size>:<pop3 list size>
func execMulti(in []string) []string {
	var ls []string
	if in[2] != "-" {
		for _, h := range strings.Split(in[2], ",") {
			ls = append(ls, vh.US(h))
		}
	}
	wire := []byte(smtpd.StuffLines(ls))
	setupWeb()
	c := smtpd.Cfg{Naming: "local", MaxRcpt: 10, MaxBytes: 50000000, DA: true, DS: true, Store: in[0]}
	env, err := smtpd.NewEnv(c, "", config.Storage{})
	if err != nil {
		return []string{"SETUPERR", vh.HS(err.Error())}
	}
	defer env.Close()
	cur.Manager = env.Manager
	stream := []byte("HELO client.example\r\nMAIL FROM:<sender@x.org>\r\n")
	var order []string
	seen := map[string]bool{}
	for _, mb := range strings.Split(in[1], ",") {
		stream = append(stream, []byte("RCPT TO:<"+mb+"@y.org>\r\n")...)
		if !seen[mb] {
			seen[mb] = true
			order = append(order, mb)
		}
	}
	stream = append(stream, []byte("DATA\r\n")...)
	stream = append(stream, wire...)
	stream = append(stream, []byte("QUIT\r\n")...)
	out, err := env.Session(stream)
	status := "ok"
	if err != nil {
		status = "err:" + vh.HS(err.Error())
	}
	hdr := "nocall"
	if len(env.Manager.Calls) > 0 {
		hdr = vh.B(env.Manager.Calls[0].HdrOK)
	}
	var copies []string
	for _, mb := range order {
		ms, err := env.Store.GetMessages(mb)
		if err != nil {
			status = "err:list"
			continue
		}
		_, listJSON := httpGet("http://localhost/api/v1/mailbox/" + mb)
		var hdrs []map[string]interface{}
		json.Unmarshal(listJSON, &hdrs)
		for i, m := range ms {
			r, err := m.Source()
			if err != nil {
				copies = append(copies, fmt.Sprintf("%s.%d:NOSRC", mb, i+1))
				continue
			}
			src, _ := io.ReadAll(r)
			r.Close()
			_, restSrc := httpGet("http://localhost/api/v1/mailbox/" + mb + "/" + m.ID() + "/source")
			_, uiSrc := httpGet("http://localhost/serve/mailbox/" + mb + "/" + m.ID() + "/source")
			restSize := "X"
			if i < len(hdrs) {
				if f, ok := hdrs[i]["size"].(float64); ok {
					restSize = strconv.FormatInt(int64(f), 10)
				}
			}
			retr, popSize, perr := pop3FetchN(env, mb, i+1)
			if perr != nil {
				status = "pop3:" + vh.HS(perr.Error())
			}
			norm := bytes.ReplaceAll(src, []byte("\r\n"), []byte("\n"))
			copies = append(copies, strings.Join([]string{fmt.Sprintf("%s.%d", mb, i+1), vh.H(smtpd.MaskTimestamp(src, mb)),
				strconv.FormatInt(m.Size(), 10), same(restSrc, src), same(uiSrc, src), same(retr, norm), restSize, popSize}, ":"))
		}
	}
	cs := "-"
	if len(copies) > 0 {
		cs = strings.Join(copies, ",")
	}
	return []string{strings.Join(smtpd.ReplyTokens(out), ","), cs, hdr + ":" + status}
}

// SeqLines: the body of transaction t (1-based) of a seq case: a header naming t, then the lines without the last t-1.
func SeqLines(ls []string, t int) []string {
	n := len(ls) - (t - 1)
	if n < 0 {
		n = 0
	}
	return append([]string{fmt.Sprintf("X-Seq: %d", t)}, ls[:n]...)
}

// execSeq: seq <store[:cap[:maxkb]]> <k> <lines> => <replies> <copies> <hdr flags>:<status>; k transactions on one
// connection to mailbox box; afterwards every stored message is read through every interface (token format of multi).
func execSeq(in []string) []string {
	var ls []string
	if in[2] != "-" {
		for _, h := range strings.Split(in[2], ",") {
			ls = append(ls, vh.US(h))
		}
	}
	k, _ := strconv.Atoi(in[1])
	setupWeb()
	sf := strings.Split(in[0], ":")
	sc := config.Storage{}
	if len(sf) > 2 && sf[2] != "" {
		sc.Params = map[string]string{"maxkb": sf[2]}
	}
	store := sf[0]
	if len(sf) > 1 && sf[1] != "" {
		store += ":" + sf[1]
	}
	c := smtpd.Cfg{Naming: "local", MaxRcpt: 10, MaxBytes: 50000000, DA: true, DS: true, Store: store}
	env, err := smtpd.NewEnv(c, "", sc)
	if err != nil {
		return []string{"SETUPERR", vh.HS(err.Error())}
	}
	defer env.Close()
	cur.Manager = env.Manager
	stream := []byte("HELO client.example\r\n")
	for t := 1; t <= k; t++ {
		stream = append(stream, []byte("MAIL FROM:<sender@x.org>\r\nRCPT TO:<box@y.org>\r\nDATA\r\n")...)
		stream = append(stream, []byte(smtpd.StuffLines(SeqLines(ls, t)))...)
	}
	stream = append(stream, []byte("QUIT\r\n")...)
	out, err := env.Session(stream)
	status := "ok"
	if err != nil {
		status = "err:" + vh.HS(err.Error())
	}
	hdr := ""
	for _, call := range env.Manager.Calls {
		hdr += vh.B(call.HdrOK)
	}
	if hdr == "" {
		hdr = "nocall"
	}
	var copies []string
	mb := "box"
	ms, err := env.Store.GetMessages(mb)
	if err != nil {
		status = "err:list"
	}
	_, listJSON := httpGet("http://localhost/api/v1/mailbox/" + mb)
	var hdrs []map[string]interface{}
	json.Unmarshal(listJSON, &hdrs)
	for i, m := range ms {
		r, err := m.Source()
		if err != nil {
			copies = append(copies, fmt.Sprintf("%s.%d:NOSRC", mb, i+1))
			continue
		}
		src, _ := io.ReadAll(r)
		r.Close()
		_, restSrc := httpGet("http://localhost/api/v1/mailbox/" + mb + "/" + m.ID() + "/source")
		_, uiSrc := httpGet("http://localhost/serve/mailbox/" + mb + "/" + m.ID() + "/source")
		restSize := "X"
		if i < len(hdrs) {
			if f, ok := hdrs[i]["size"].(float64); ok {
				restSize = strconv.FormatInt(int64(f), 10)
			}
		}
		retr, popSize, perr := pop3FetchN(env, mb, i+1)
		if perr != nil {
			status = "pop3:" + vh.HS(perr.Error())
		}
		norm := bytes.ReplaceAll(src, []byte("\r\n"), []byte("\n"))
		copies = append(copies, strings.Join([]string{fmt.Sprintf("%s.%d", mb, i+1), vh.H(smtpd.MaskTimestamp(src, mb)),
			strconv.FormatInt(m.Size(), 10), same(restSrc, src), same(uiSrc, src), same(retr, norm), restSize, popSize}, ":"))
	}
	cs := "-"
	if len(copies) > 0 {
		cs = strings.Join(copies, ",")
	}
	return []string{strings.Join(smtpd.ReplyTokens(out), ","), cs, hdr + ":" + status}
}

// execAsmSrc runs one assembled-system case in a child process (the web router is a process global).
func execAsmSrc(in []string) []string {
	var f []string
	for try := 0; try < 6; try++ {
		f = execAsmSrcOnce(in)
		if !vh.PortClash(f) { // the web port (bind-note-release) was taken by another process: fresh child
			break
		}
		time.Sleep(time.Duration(50*(try+1)) * time.Millisecond)
	}
	return f
}

func execAsmSrcOnce(in []string) []string {
	cmd := osexec.Command(os.Args[0], "asmsrcchild")
	cmd.Stdin = strings.NewReader(in[0] + " " + in[1] + "\n")
	var out, errb bytes.Buffer
	cmd.Stdout, cmd.Stderr = &out, &errb
	done := make(chan error, 1)
	if err := cmd.Start(); err != nil {
		return []string{"SETUPERR", vh.HS(err.Error())}
	}
	go func() { done <- cmd.Wait() }()
	select {
	case err := <-done:
		if err != nil {
			return []string{"CRASH", vh.HS(errb.String())}
		}
	case <-time.After(120 * time.Second):
		cmd.Process.Kill()
		return []string{"HANG"}
	}
	f := strings.Fields(out.String())
	if len(f) == 0 {
		return []string{"NOOUTPUT"}
	}
	return f
}

// asmSrcChild: same observation fields as the `lines` kind, every read through a real listener of the assembled
// server: REST /source without content coding is the reference ("store source"), then REST and web-UI /source with
// Go's default client (gzip offered), POP3 RETR / LIST over the real POP3 port, the REST listing's size.
func asmSrcChild(store, linesField string) {
	var ls []string
	if linesField != "-" {
		for _, h := range strings.Split(linesField, ",") {
			ls = append(ls, vh.US(h))
		}
	}
	wire := []byte(smtpd.StuffLines(ls))
	c := smtpd.Cfg{Naming: "local", MaxRcpt: 10, MaxBytes: 50000000, DA: true, DS: true, Store: store}
	sys, err := smtpd.AsmStart(c)
	if err != nil {
		fmt.Println("SETUPERR", vh.HS(err.Error()))
		return
	}
	stream := append([]byte("HELO client.example\r\nMAIL FROM:<sender@x.org>\r\nRCPT TO:<box@y.org>\r\nDATA\r\n"), wire...)
	stream = append(stream, []byte("QUIT\r\n")...)
	out, rerr := sys.SMTP(stream)
	status := "ok"
	if rerr != nil {
		status = "err:" + vh.HS(rerr.Error())
	}
	replies := strings.Join(smtpd.ReplyTokens(out), ",")
	hdr := vh.B(smtpd.HdrFacts(decodeWire(wire)).HdrOK)
	code, listJSON := sys.Get("/api/v1/mailbox/box")
	var hdrs []struct {
		ID   string `json:"id"`
		Size int64  `json:"size"`
	}
	if code != 200 || json.Unmarshal(listJSON, &hdrs) != nil || len(hdrs) != 1 {
		sys.Shutdown()
		fmt.Println(strings.Join([]string{replies, "NOMSG", "0", "-", "-", "-", "-", "-", hdr + ":" + status}, " "))
		return
	}
	id := hdrs[0].ID
	_, src := sys.GetIdentity("/api/v1/mailbox/box/" + id + "/source")
	_, restSrc := sys.Get("/api/v1/mailbox/box/" + id + "/source")
	_, uiSrc := sys.Get("/serve/mailbox/box/" + id + "/source")
	retr, popSize, perr := pop3Over(sys.Svc.POP3Server.VerifAddr().String(), "box", 1)
	if perr != nil {
		status = "pop3:" + vh.HS(perr.Error())
	}
	if !sys.Shutdown() {
		status = "drain-timeout"
	}
	norm := bytes.ReplaceAll(src, []byte("\r\n"), []byte("\n"))
	fmt.Println(strings.Join([]string{replies, vh.H(smtpd.MaskTimestamp(src, "box")), strconv.Itoa(len(src)),
		same(restSrc, src), same(uiSrc, src), same(retr, norm), strconv.FormatInt(hdrs[0].Size, 10), popSize, hdr + ":" + status}, " "))
}

// decodeWire un-stuffs the DATA block (for the header-facts oracle of the child, which has no recording manager).
func decodeWire(wire []byte) []byte {
	b, _ := textproto.NewReader(bufio.NewReader(bytes.NewReader(wire))).ReadDotBytes()
	return b
}

func main() {
	if len(os.Args) > 1 && os.Args[1] == "asmsrcchild" {
		line, _ := bufio.NewReaderSize(os.Stdin, 1<<20).ReadString('\n')
		f := strings.Fields(line)
		if len(f) == 2 {
			asmSrcChild(f[0], f[1])
		}
		return
	}
	vh.Main(gen, exec)
}

// Driver for C03 (SMTP transactions are well-sequenced, isolated and atomic): command-line
// sequences with heavy out-of-order / garbage / AUTH traffic, and valid dialogues cut after every
// byte offset, against a real session on real stores.
package main

import (
	"verifharness/smtpd"
	"verifharness/vh"
)

func gen(g *vh.Gen) {
	o := smtpd.Opts{Garbage: 0.35, MaxBody: 120, SizeParams: true}
	for i := 0; i < g.N(600, 30000); i++ {
		oo := o
		if g.Chance(0.15) { // small limits: oversize blocks refused in mid-connection, then the dialogue goes on
			oo.SmallLimit = true
		}
		c, pool := smtpd.GenCfg(g, oo)
		stream := smtpd.GenDialogue(g, c, pool, oo)
		g.Emit("smtp", append(c.Fields(), vh.H(stream))...)
	}
	// every byte cut of valid dialogues
	oc := smtpd.Opts{Garbage: 0.02, MaxBody: 40}
	for i := 0; i < g.N(8, 400); i++ {
		c, pool := smtpd.GenCfg(g, oc)
		c.DA, c.DS, c.Rej, c.Dis = true, true, "", ""
		stream := smtpd.GenDialogue(g, c, pool, oc)
		if len(stream) > 700 {
			stream = stream[:700]
		}
		for k := 0; k <= len(stream); k++ {
			g.Emit("smtp", append(c.Fields(), vh.H(stream[:k]))...)
		}
	}
}

func exec(kind string, in []string) []string {
	if kind != "smtp" {
		return []string{"UNKNOWN-KIND"}
	}
	return smtpd.Exec(in)
}

func main() { vh.Main(gen, exec) }

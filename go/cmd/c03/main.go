// Driver for C03 (SMTP transactions are well-sequenced, isolated and atomic): command-line
// sequences with heavy out-of-order / garbage / AUTH traffic, and valid dialogues cut after every
// byte offset, against a real session on real stores.
package main

import (
	"bytes"
	"fmt"
	"os"
	"sort"
	"strings"
	"verifharness/smtpd"
	"verifharness/vh"
)

func gen(g *vh.Gen) {
	o := smtpd.Opts{Garbage: 0.35, MaxBody: 120, SizeParams: true, Caps: true}
	for i := 0; i < g.N(600, 30000); i++ {
		oo := o
		if g.Chance(0.15) { // small limits: oversize blocks refused in mid-connection, then the dialogue goes on
			oo.SmallLimit = true
		}
		c, pool := smtpd.GenCfg(g, oo)
		stream := smtpd.GenDialogue(g, c, pool, oo)
		g.Emit("smtp", append(c.Fields(), vh.H(stream))...)
	}
	// error storms: many faulty lines on one connection, then an ordinary transaction
	for i := 0; i < g.N(4, 80); i++ {
		c, pool := smtpd.GenCfg(g, smtpd.Opts{})
		stream := smtpd.GenErrorStorm(g, &c, pool, []int{101, 21, 40, 300, 9, 19, 20, 64, 1000}[i%9])
		g.Emit("smtp", append(c.Fields(), vh.H(stream))...)
	}
	// every byte cut of valid dialogues
	oc := smtpd.Opts{Garbage: 0.02, MaxBody: 40}
	for i := 0; i < g.N(8, 400); i++ {
		c, pool := smtpd.GenCfg(g, oc)
		c.DA, c.DS, c.Rej, c.Dis = true, true, "", ""
		stream := smtpd.GenDialogue(g, c, pool, oc)
		if len(stream) > 700 {
			stream = stream[:700]
		}
		for k := 0; k <= len(stream); k++ {
			g.Emit("smtp", append(c.Fields(), vh.H(stream[:k]))...)
		}
	}
	// connections that pause, time out or break: 1-3 pauses longer than the idle timeout at random offsets
	// (line boundaries, inside a line, inside a DATA block), ended by EOF, by silence or by a read error
	for i := 0; i < g.N(150, 6000); i++ {
		c, pool := smtpd.GenCfg(g, oc)
		if g.Chance(0.7) {
			c.DA, c.DS, c.Rej, c.Dis = true, true, "", ""
		}
		stream := smtpd.GenDialogue(g, c, pool, oc)
		var cuts []int
		for n := g.Intn(4); n > 0 && len(stream) > 0; n-- {
			k := g.Intn(len(stream) + 1)
			if g.Chance(0.4) { // move to the next line boundary
				for k < len(stream) && (k == 0 || stream[k-1] != '\n') {
					k++
				}
			}
			cuts = append(cuts, k)
		}
		sort.Ints(cuts)
		var chunks [][]byte
		prev := 0
		for _, k := range cuts {
			chunks = append(chunks, stream[prev:k])
			prev = k
		}
		chunks = append(chunks, stream[prev:])
		if g.Chance(0.3) { // the client gives up somewhere
			chunks[len(chunks)-1] = chunks[len(chunks)-1][:g.Intn(len(chunks[len(chunks)-1])+1)]
		}
		g.Emit("smtp", append(c.Fields(), smtpd.NetField(chunks, g.Pick("eof", "idle", "idle", "err")))...)
	}
	// writes that fail: the client has gone away (or stopped reading) after k reply lines, the greeting included;
	// every k for a few valid dialogues, random k with pauses and endings for the rest
	for i := 0; i < g.N(6, 200); i++ {
		c, pool := smtpd.GenCfg(g, oc)
		c.DA, c.DS, c.Rej, c.Dis = true, true, "", ""
		stream := smtpd.GenDialogue(g, c, pool, oc)
		lines := bytes.Count(stream, []byte("\n")) + 6
		if lines > 40 {
			lines = 40
		}
		for k := 0; k <= lines; k++ {
			g.Emit("smtp", append(c.Fields(), fmt.Sprintf("%s^%d", vh.H(stream), k))...)
		}
	}
	for i := 0; i < g.N(60, 3000); i++ {
		c, pool := smtpd.GenCfg(g, oc)
		stream := smtpd.GenDialogue(g, c, pool, oc)
		chunks := [][]byte{stream}
		if len(stream) > 0 && g.Chance(0.4) {
			k := g.Intn(len(stream) + 1)
			chunks = [][]byte{stream[:k], stream[k:]}
		}
		g.Emit("smtp", append(c.Fields(), fmt.Sprintf("%s^%d", smtpd.NetField(chunks, g.Pick("eof", "eof", "idle", "err")), g.Intn(30)))...)
	}
	// sessions that overlap: the first one is held inside Deliver while the others run from greeting to end
	// ("isolated from each other": what a session read from its client is what it stores)
	for i := 0; i < g.N(40, 1500); i++ {
		c, pool := smtpd.GenCfg(g, oc)
		c.DA, c.DS, c.Rej, c.Dis = true, true, "", ""
		n := 2 + g.Intn(2)
		hs := make([]string, n)
		for j := range hs {
			hs[j] = vh.H(smtpd.GenDialogue(g, c, pool, smtpd.Opts{Garbage: 0.02, MaxBody: g.Pick2(40, 400, 3000)}))
		}
		g.Emit("smtppar", append(c.Fields(), strings.Join(hs, "+"))...)
	}
	// the assembled server on a listener that speaks TLS from the first byte (SMTP_FORCETLS), with one to three
	// peers that connected first and never say anything: the client of the case must still be served
	for i := 0; i < g.N(6, 120); i++ {
		oa := smtpd.Opts{Garbage: 0.1, MaxBody: 120}
		c, pool := smtpd.GenCfg(g, oa)
		stream := bytes.ReplaceAll(smtpd.GenDialogue(g, c, pool, oa), []byte("x/y"), []byte("xsy")) // '/' in a mailbox name: K-C14
		if !bytes.HasSuffix(bytes.ToUpper(bytes.TrimRight(stream, "\r\n")), []byte("QUIT")) {
			stream = append(stream, []byte("QUIT\r\n")...)
		}
		g.Emit("asmtls", append(c.Fields(), vh.H(stream))...)
	}
	// STARTTLS: a server with TLS configured; the client greets, asks for STARTTLS (sometimes with plaintext commands
	// pipelined behind it in the same segment - they must never be executed), upgrades with a real handshake when the
	// server said 220, and goes on under TLS: greeting again (or not), a second STARTTLS, transactions
	for i := 0; i < g.N(14, 400); i++ {
		c, pool := smtpd.GenCfg(g, oc)
		if g.Chance(0.7) {
			c.DA, c.DS, c.Rej, c.Dis = true, true, "", ""
		}
		var p strings.Builder
		line := func(b *strings.Builder, s string) { b.WriteString(s); b.WriteString(g.Pick2s("\r\n", "\r\n", "\n")) }
		if g.Chance(0.85) {
			line(&p, g.Pick("EHLO", "HELO", "ehlo")+" client.example")
		}
		if g.Chance(0.15) { // a refused MAIL leaves the sender behind, a transaction moves the state on
			line(&p, "MAIL FROM:<a@b.org> SIZE=99999999999")
		}
		if g.Chance(0.1) {
			line(&p, "MAIL FROM:<alice@example.org>") // STARTTLS inside a transaction: out of sequence
		}
		line(&p, g.Pick("STARTTLS", "STARTTLS", "starttls", "StartTLS", "STARTTLS now"))
		if g.Chance(0.35) { // plaintext injected behind the STARTTLS line
			line(&p, g.Pick("MAIL FROM:<evil@example.org>", "NOOP", "RSET", "EHLO injected.example", "QUIT", "STARTTLS"))
			if g.Chance(0.5) {
				line(&p, "RCPT TO:<alice@example.org>")
			}
		}
		var t strings.Builder
		if g.Chance(0.25) {
			line(&t, g.Pick("MAIL FROM:<alice@example.org>", "NOOP", "RSET", "AUTH PLAIN abc", "STARTTLS")) // before the new greeting
		}
		if g.Chance(0.9) {
			line(&t, g.Pick("EHLO", "HELO")+" again.example")
		}
		if g.Chance(0.3) {
			line(&t, "STARTTLS")
		}
		t.Write(smtpd.GenDialogue(g, c, pool, smtpd.Opts{Garbage: 0.05, MaxBody: 40}))
		ts := t.String()
		if !strings.HasSuffix(strings.ToUpper(strings.TrimRight(ts, "\r\n")), "QUIT") {
			ts += "QUIT\r\n"
		}
		g.Emit("smtptls", append(c.Fields(), vh.H([]byte(p.String()))+"@"+vh.H([]byte(ts)))...)
	}
	// one pause at every byte offset of valid dialogues
	for i := 0; i < g.N(3, 150); i++ {
		c, pool := smtpd.GenCfg(g, oc)
		c.DA, c.DS, c.Rej, c.Dis = true, true, "", ""
		stream := smtpd.GenDialogue(g, c, pool, oc)
		if len(stream) > 400 {
			stream = stream[:400]
		}
		for k := 0; k <= len(stream); k++ {
			g.Emit("smtp", append(c.Fields(), smtpd.NetField([][]byte{stream[:k], stream[k:]}, "eof"))...)
		}
	}
	// the client leaves at every byte offset of an AUTH LOGIN exchange (the session is in its LOGIN / PASSWORD states
	// only between the 334 replies and the end of the password line), with and without an envelope begun before
	ga := g.Side("c03-auth-cuts")
	for i := 0; i < g.N(3, 40); i++ {
		c, _ := smtpd.GenCfg(ga, smtpd.Opts{})
		c.DA, c.DS, c.Rej, c.Dis, c.RejO = true, true, "", "", ""
		pre := []string{"EHLO a.example\r\n", "HELO a.example\r\n", "EHLO a.example\r\nMAIL FROM:<s@a.example>\r\nRCPT TO:<r@a.example>\r\nRSET\r\n"}[i%3]
		stream := []byte(pre + "AUTH LOGIN\r\ndXNlcg==\r\ncGFzcw==\r\nNOOP\r\nQUIT\r\n")
		for k := len(pre); k <= len(stream); k++ {
			ga.Emit("smtp", append(c.Fields(), smtpd.NetField([][]byte{stream[:k]}, []string{"eof", "eof", "idle", "err"}[(k+i)%4]))...)
		}
	}
	// lock-step clients (see smtpd.LockStepField)
	for i := 0; i < g.N(30, 1500); i++ {
		c, pool := smtpd.GenCfg(g, o)
		stream := smtpd.GenDialogue(g, c, pool, o)
		g.Emit("smtp", append(c.Fields(), smtpd.LockStepField(g, stream, i%3))...)
	}
}

func exec(kind string, in []string) []string {
	switch kind {
	case "smtp", "smtptls":
		return smtpd.Exec(in)
	case "smtppar":
		return smtpd.ExecPar(in)
	case "asmtls":
		return smtpd.ExecAsmTLS(in)
	}
	return []string{"UNKNOWN-KIND"}
}

func main() {
	if len(os.Args) > 1 && os.Args[1] == "asmchild" {
		smtpd.AsmChild()
		return
	}
	vh.Main(gen, exec)
}

package main

import (
	"fmt"
	"strings"

	"verifharness/asmsys"
	"verifharness/vh"
)

type sess struct {
	id    int
	proto string // S | P
	state string
	held  bool
	open  bool
}

var smtpStates = []string{"helo", "mail", "rcpt", "data", "body"}
var pop3States = []string{"user", "pass", "dele"}

func later(order []string, cur string) []string {
	i := idx(append([]string{"greeted"}, order...), cur)
	if i < 0 {
		return nil
	}
	return order[i:]
}

// genLife: up to 3 sessions parked in some protocol state, then cancel, then client activity,
// connection attempts and Drain calls in a random order.
func genLife(g *vh.Gen) string {
	var ops []string
	var ss []*sess
	nsess := g.Intn(4)
	for i := 0; i < nsess; i++ {
		s := &sess{id: i, proto: g.Pick("S", "S", "P"), state: "greeted", open: true}
		if g.Chance(0.25) {
			s.held = true
			ops = append(ops, fmt.Sprintf("O%d:%s", i, s.proto))
		} else {
			ops = append(ops, fmt.Sprintf("o%d:%s", i, s.proto))
			order := smtpStates
			if s.proto == "P" {
				order = pop3States
			}
			k := g.Intn(len(order) + 1)
			if k > 0 {
				s.state = order[k-1]
				ops = append(ops, fmt.Sprintf("p%d:%s", i, s.state))
			}
		}
		ss = append(ss, s)
		if g.Chance(0.15) {
			ops = append(ops, "n"+g.Pick("S", "P"))
		}
	}
	ops = append(ops, "k")
	steps := 2 + g.Intn(8)
	for j := 0; j < steps; j++ {
		r := g.Float64()
		var cand []*sess
		for _, s := range ss {
			if s.open {
				cand = append(cand, s)
			}
		}
		switch {
		case r < 0.25:
			ops = append(ops, "D"+g.Pick("S", "P"))
		case r < 0.37:
			ops = append(ops, "n"+g.Pick("S", "P"))
		case r < 0.40:
			ops = append(ops, "k")
		case len(cand) == 0:
			ops = append(ops, "D"+g.Pick("S", "P"))
		default:
			s := cand[g.Intn(len(cand))]
			switch {
			case s.held:
				if g.Chance(0.8) {
					ops = append(ops, fmt.Sprintf("L%d", s.id))
					s.held = false
				} else {
					ops = append(ops, fmt.Sprintf("a%d", s.id))
					s.open = false
				}
			case g.Chance(0.45):
				ops = append(ops, fmt.Sprintf("f%d", s.id))
				s.open = false
			case g.Chance(0.25):
				ops = append(ops, fmt.Sprintf("a%d", s.id))
				s.open = false
			default:
				order := smtpStates
				if s.proto == "P" {
					order = pop3States
				}
				l := later(order, s.state)
				if len(l) == 0 {
					ops = append(ops, fmt.Sprintf("f%d", s.id))
					s.open = false
				} else {
					s.state = l[g.Intn(len(l))]
					ops = append(ops, fmt.Sprintf("p%d:%s", s.id, s.state))
				}
			}
		}
	}
	return strings.Join(ops, ",")
}

func gen(g *vh.Gen) {
	// the assembled system (server.FullAssembly + Services.Start), one child process per case
	asmsys.Gen(g, "asm19")
	// every subset of the listeners failing to bind, scanner enabled / disabled
	for _, m := range []string{"000", "100", "010", "001", "110", "101", "011", "111"} {
		g.Emit("boot", m, "1h")
	}
	// shutdown requested before / during start-up: every port the server bound is closed again
	g.Emit("early", "pre", "-")
	g.Emit("early", "race", "-")
	for _, b := range []string{"web", "smtp", "pop3"} {
		g.Emit("early", "clash", b)
	}
	g.Emit("boot", "000", "0s")
	g.Emit("boot", "010", "0s")
	// the orderings the model enumerates for one session in each protocol state
	for _, st := range []string{"", "helo", "mail", "rcpt", "data", "body"} {
		pre := "o0:S"
		if st != "" {
			pre += ",p0:" + st
		}
		g.Emit("life", pre+",k,DS,nS,f0,DS")
	}
	for _, st := range []string{"", "user", "pass", "dele"} {
		pre := "o0:P"
		if st != "" {
			pre += ",p0:" + st
		}
		g.Emit("life", pre+",k,DP,nP,f0,DP")
	}
	g.Emit("life", "O0,k,DS,L0,DS,p0:body,f0,DS")
	g.Emit("life", "O0,k,DS,a0,DS")
	g.Emit("life", "O0:P,k,DP,L0,DP,p0:dele,f0,DP")
	g.Emit("life", "O0:P,O1:S,k,DP,DS,a0,DP,L1,f1,DS")
	g.Emit("life", "k,nS,nP,DS,DP")
	// the accept-to-count window (repair 0022: the accept loop itself is counted): shutdown requested while the
	// loop holds a connection it has not counted yet — Drain must wait, the session is served, then Drain returns
	g.Emit("life", "A0:S,k,DS,L0,DS,f0,DS")
	g.Emit("life", "A0:P,k,DP,DS,L0,p0:pass,DP,f0,DP")
	g.Emit("life", "o1:S,p1:data,A0:S,k,f1,DS,L0,p0:body,DS,f0,DS")
	g.Emit("life", "A0:S,A1:P,k,DS,DP,L1,f1,DP,DS,L0,a0,DS")
	// QUIT with deletions pending in a slow store: Drain must wait for them
	g.Emit("life", "o0:P,p0:dele,k,G,q0,DP,U,e0,DP")
	g.Emit("life", "o0:P,p0:dele,o1:P,p1:pass,G,k,q0,q1,e1,DP,DS,U,e0,DP")
	g.Emit("life", "o0:P,p0:dele,o1:S,p1:data,k,G,q0,f1,DS,DP,U,e0,DP")
	for i := 0; i < g.N(45, 1000); i++ {
		g.Emit("life", genLife(g))
	}
	// a session that keeps talking for longer than the idle timeout after Drain was called: Drain keeps waiting
	g.Emit("lifet", "o0:P,p0:pass,k,DP,b0:1700,DP,f0,DP")
	g.Emit("lifet", "o0:S,p0:helo,k,DS,b0:1700,DS,f0,DS")
	g.Emit("lifet", "o0:P,p0:dele,k,b0:1500,DP,b0:600,DP,f0,DP")
	// a permanent Accept error ends the accept loop (reported on Notify) while sessions are open: they finish, shutdown works
	g.Emit("life", "o0:S,p0:data,ES,k,DS,f0,DS")
	g.Emit("life", "o0:P,p0:dele,o1:S,p1:helo,EP,ES,k,DP,f0,DP,DS,f1,DS")
	g.Emit("life", "ES,EP,k,DS,DP")
	// THOROUGH tier only (~35 s of real time): sessions kept talking for 14 s and 16 s after Drain was called — a Drain that
	// gives up after some grace period of its own (whatever its length up to that) is seen returning while they are open
	for i := 0; i < g.N(0, 1); i++ {
		g.Emit("life", "o0:S,p0:helo,o1:P,p1:pass,k,DS,DP,b0:14000,DS,DP,b1:16000,DS,DP,f0,f1,DS,DP")
	}
	// THOROUGH tier only (~30 s of real time): after the cancel and the drain calls each session sends a command, then ALL
	// clients are completely silent for 9 s, later for 17 s (well inside the configured idle timeout of 30 s); the command
	// after each gap is answered as usual, Drain stays blocked, the POP3 deletions marked before the cancel are applied at QUIT
	for i := 0; i < g.N(0, 1); i++ {
		g.Emit("life", "o0:S,p0:rcpt,o1:P,p1:dele,k,DS,DP,b0:100,b1:100,b0:9000:s,b1:100,DS,DP,b0:17000:s,b1:100,DS,DP,f0,f1,DS,DP")
	}
	// POP3 with STLS available: a session upgrades before / after shutdown was requested and completes its dialogue
	g.Emit("stls", "o0:P,k,t0,p0:dele,DP,f0,DP")
	g.Emit("stls", "o0:P,t0,k,p0:dele,f0,DP")
	g.Emit("stls", "o0:P,p0:user,k,DP,t0,p0:pass,b0:300,f0,DP")
	g.Emit("stls", "o0:P,o1:S,p1:data,k,t0,f1,p0:dele,f0,DP,DS")
	// as coded the TLS state is the SERVER's: the second session's STLS is refused, it goes on in plain text
	g.Emit("stls", "o0:P,o1:P,k,t0,t1,p0:dele,p1:dele,f0,f1,DP")
	// POP3 in ForceTLS mode: plain-text clients are dropped without leaking a session count
	g.Emit("tls", "xP,o0:P,p0:pass,k,DP,f0,DP")
	g.Emit("tls", "o0:P,p0:dele,xP,xP,k,nP,DP,f0,DP,DS")
	g.Emit("tls", "xP,k,DP")
	// one pass cancelled just before the k-th mailbox: the callback that is running notices, no further mailbox is visited
	for _, c := range [][3]int{{40, 0, 0}, {40, 0, 7}, {40, 0, 39}, {40, 40, 5}, {40, 3, 10}, {25, 12, 4}, {10, 0, 10}} {
		g.Emit("scan", fmt.Sprint(c[0]), fmt.Sprint(c[1]), fmt.Sprint(c[2]))
	}
	// the same over the FILE store (three nested directory levels): many mailboxes of expired mail in many hash directories
	for _, c := range [][3]int{{60, 60, 3}, {60, 60, 20}, {60, 0, 5}, {40, 25, 0}} {
		g.Emit("scan", fmt.Sprint(c[0]), fmt.Sprint(c[1]), fmt.Sprint(c[2]), "file")
	}
	for i := 0; i < g.N(3, 200); i++ {
		n := 5 + g.Intn(60)
		g.Emit("scan", fmt.Sprint(n), fmt.Sprint(g.Intn(n+1)), fmt.Sprint(g.Intn(n+2)), g.Pick("mem", "file"))
	}
	g.Emit("ret", "1h", "30", "pre")
	g.Emit("ret", "1h", "30", "mid")
	g.Emit("ret", "1h", "3", "none")
	g.Emit("ret", "0s", "2", "none")
	for i := 0; i < g.N(0, 20); i++ {
		g.Emit("ret", g.Pick("1h", "0s", "10m"), fmt.Sprint(20+g.Intn(20)), g.Pick("pre", "mid"))
	}
}

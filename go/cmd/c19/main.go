// Driver for C19 (graceful shutdown): real SMTP and POP3 servers on ephemeral ports, a real
// message hub, memory store and retention scanner, all under one cancellable context.
//
//	life <op,op,…>  =>  one field per op, then: DrainSMTP DrainPOP3 Join HubSync HubDispatch
//
// ops (one driver goroutine, in order):
//
//	o<i>:S | o<i>:P   connect session i to the SMTP/POP3 server, read the greeting       -> 220 | +OK | refused
//	O<i>[:S] | O<i>:P connect session i and hold its goroutine at the start point           -> held | refused
//	                  (verifhook "smtp.session.start" / "pop3.session.start": accepted, not yet started)
//	A<i>:S | A<i>:P   connect while the server's accept loop is held between the kernel handing over the
//	                  connection and wg.Add (listener wrapper, VerifWrapListener): accepted, not yet counted -> parked | refused
//	ES | EP           the accept loop's next Accept returns a permanent (non-timeout) error; the error must show up on
//	                  Notify(); the loop exits, open sessions go on, Start keeps waiting for the cancel        -> notified | silent
//	L<i>              release the held session / the held accept loop, read the greeting   -> 220 | +OK
//	p<i>:<state>      advance session i: SMTP helo|mail|rcpt|data|body, POP3 user|pass|dele -> last reply
//	k                 cancel the context; wait until both Start calls have returned         -> .
//	f<i>              finish gracefully. SMTP: complete the message in flight (if DATA was
//	                  accepted), QUIT -> <250|->/221/<messages stored for it>; POP3: QUIT   -> +OK/<messages left>
//	a<i>              the client drops the connection                                      -> .
//	nS | nP           a fresh connection attempt (a complete little session if accepted)   -> accepted | refused
//	DS | DP           Drain() of that server: has it returned (within the deadline)?       -> returned | blocked
//	G / U             the store handed to the POP3 server blocks in RemoveMessage / lets go -> .
//	q<i>              POP3: send QUIT and read the reply only                               -> +OK
//	e<i>              wait until the server has closed session i's connection               -> +OK/<messages left>
//
//	lifet <op,…>      as life, but both servers run with an idle Timeout of 1 s (a session that keeps talking is never idle)
//	b<i>:<ms>         keep session i busy for <ms> milliseconds: a NOOP every 200 ms, each answered        -> last reply
//	b<i>:<ms>:s       every client stays completely SILENT for <ms> milliseconds, then session i sends one NOOP      -> its reply
//
//	stls <op,…>       as life, but the POP3 server runs with TLSEnabled (not ForceTLS): sessions start in plain text and
//	                  may upgrade;  t<i> = session i sends STLS, gets +OK, and the client performs the TLS handshake -> +OK | tlsfail
//
//	tls <op,…>        as life, but the POP3 server runs with TLSEnabled+ForceTLS (self-signed certificate made at
//	                  run time) and POP3 clients speak TLS; extra op xP: a plain-text client on the TLS port      -> dropped
//
//	early <mode> <busy>  shutdown requested BEFORE or DURING start-up of the assembled server (ports picked beforehand):
//	                  mode pre = Services.Start is called with an already-cancelled context; race = cancel right after
//	                  Services.Start returned; clash = the port of <busy> (web|smtp|pop3) is taken, the failure is notified and
//	                  main cancels at once. Afterwards every port the server bound must be closed again (a dial is refused
//	                  AND the address can be bound), the drains and the Join return                      -> web=… smtp=… pop3=… returns|stuck:…
//
//	boot <wsp> <period>  the assembled server (server.FullAssembly + Services.Start) with any subset of the three
//	                  listeners (web, smtp, pop3: mask of 0/1) unable to bind: is readyFunc called, is a failure
//	                  notified, and does what main() does next (cancel, Drain, Drain, Join) return?
//
//	scan <n> <nexpired> <k> [mem|file]  one retention pass (DoScan) over n mailboxes of which nexpired hold an expired message;
//	                  the context is cancelled just before the k-th mailbox callback: how many callbacks run from
//	                  then on (the one that notices, and not one more)?                     -> visited=<c> returned|blocked
//
//	ret <period> <n> <when>  retention scanner over n mailboxes: Start/Join and DoScan against cancellation
package main

import (
	"bufio"
	"bytes"
	"context"
	"crypto/ecdsa"
	"crypto/elliptic"
	"crypto/rand"
	"crypto/tls"
	"crypto/x509"
	"crypto/x509/pkix"
	"encoding/pem"
	"errors"
	"fmt"
	"math/big"
	"net"
	"net/mail"
	"os"
	osexec "os/exec"
	"strconv"
	"strings"
	"sync"
	"sync/atomic"
	"time"

	"github.com/inbucket/inbucket/v3/pkg/config"
	"github.com/inbucket/inbucket/v3/pkg/extension"
	"github.com/inbucket/inbucket/v3/pkg/extension/event"
	"github.com/inbucket/inbucket/v3/pkg/message"
	"github.com/inbucket/inbucket/v3/pkg/msghub"
	"github.com/inbucket/inbucket/v3/pkg/policy"
	"github.com/inbucket/inbucket/v3/pkg/server"
	"github.com/inbucket/inbucket/v3/pkg/server/pop3"
	"github.com/inbucket/inbucket/v3/pkg/server/smtp"
	"github.com/inbucket/inbucket/v3/pkg/storage"
	"github.com/inbucket/inbucket/v3/pkg/storage/file"
	"github.com/inbucket/inbucket/v3/pkg/storage/mem"
	"github.com/inbucket/inbucket/v3/pkg/verifhook"
	"github.com/rs/zerolog"
	"verifharness/asmsys"
	"verifharness/vh"
)

var (
	shortWait = 250 * time.Millisecond // confirming "blocked" when the driver's own books say sessions are open
	longWait  = 4 * time.Second        // everything that is expected to happen
)

// ---- hold point ------------------------------------------------------------------------

type holdReq struct {
	parked  chan struct{}
	release chan struct{}
}

var holdNext [2]atomic.Pointer[holdReq] // 0: SMTP, 1: POP3

// holdAccept: hold the accept loop of server p when its next Accept is about to return.
var holdAccept [2]atomic.Pointer[holdReq]

// holdListener is what the accept loop calls Accept on (installed with VerifWrapListener).
type holdListener struct {
	net.Listener
	p int
}

// failAccept: the next Accept of server p returns a permanent error (as EMFILE would).
var failAccept [2]atomic.Bool

func (h *holdListener) Accept() (net.Conn, error) {
	c, err := h.Listener.Accept()
	if err == nil && failAccept[h.p].Swap(false) {
		c.Close()
		return nil, errors.New("accept: too many open files (injected by the harness)")
	}
	if err == nil {
		if r := holdAccept[h.p].Swap(nil); r != nil {
			close(r.parked)
			<-r.release
		}
	}
	return c, err
}

func hookHandler(site, arg string) {
	p := -1
	switch site {
	case "smtp.session.start":
		p = 0
	case "pop3.session.start":
		p = 1
	}
	if p < 0 {
		return
	}
	if h := holdNext[p].Swap(nil); h != nil {
		close(h.parked)
		<-h.release
	}
}

// ---- world -----------------------------------------------------------------------------

type world struct {
	cancel     context.CancelFunc
	cancelled  bool
	store      storage.Store
	hub        *msghub.Hub
	smtp       *smtp.Server
	pop3       *pop3.Server
	rs         *storage.RetentionScanner
	startDone  [2]chan struct{}
	drainDone  [2]chan struct{}
	addr       [2]string
	hubDone    chan struct{}
	rsDone     chan struct{}
	hubEvents  *recorder
	gs         *gateStore
	tls        bool
	stls       bool
	tmpDir     string
	openByProt [2]int
}

// gateStore is the store handed to the POP3 server: RemoveMessage can be made to wait.
type gateStore struct {
	storage.Store
	mu   sync.Mutex
	gate chan struct{}
}

func (g *gateStore) RemoveMessage(mailbox, id string) error {
	g.mu.Lock()
	ch := g.gate
	g.mu.Unlock()
	if ch != nil {
		<-ch
	}
	return g.Store.RemoveMessage(mailbox, id)
}

func (g *gateStore) shut() {
	g.mu.Lock()
	if g.gate == nil {
		g.gate = make(chan struct{})
	}
	g.mu.Unlock()
}

func (g *gateStore) open() {
	g.mu.Lock()
	if g.gate != nil {
		close(g.gate)
		g.gate = nil
	}
	g.mu.Unlock()
}

type recorder struct {
	mu sync.Mutex
	n  int
}

func (r *recorder) Receive(msg event.MessageMetadata) error {
	r.mu.Lock()
	r.n++
	r.mu.Unlock()
	return nil
}
func (r *recorder) Delete(mailbox string, id string) error { return nil }

func setenv(k, v string) { os.Setenv(k, v) }

// selfSigned writes a fresh self-signed certificate and key as PEM files.
func selfSigned(dir string) (certFile, keyFile string, err error) {
	key, err := ecdsa.GenerateKey(elliptic.P256(), rand.Reader)
	if err != nil {
		return "", "", err
	}
	tmpl := &x509.Certificate{
		SerialNumber: big.NewInt(1), Subject: pkix.Name{CommonName: "localhost"},
		NotBefore: time.Now().Add(-time.Hour), NotAfter: time.Now().Add(24 * time.Hour),
		KeyUsage: x509.KeyUsageDigitalSignature, ExtKeyUsage: []x509.ExtKeyUsage{x509.ExtKeyUsageServerAuth},
		IPAddresses: []net.IP{net.ParseIP("127.0.0.1")},
	}
	der, err := x509.CreateCertificate(rand.Reader, tmpl, tmpl, &key.PublicKey, key)
	if err != nil {
		return "", "", err
	}
	kb, err := x509.MarshalECPrivateKey(key)
	if err != nil {
		return "", "", err
	}
	certFile, keyFile = dir+"/cert.pem", dir+"/key.pem"
	if err = os.WriteFile(certFile, pem.EncodeToMemory(&pem.Block{Type: "CERTIFICATE", Bytes: der}), 0o600); err != nil {
		return "", "", err
	}
	err = os.WriteFile(keyFile, pem.EncodeToMemory(&pem.Block{Type: "EC PRIVATE KEY", Bytes: kb}), 0o600)
	return certFile, keyFile, err
}

var shortTimeouts bool // kind lifet: idle Timeout of 1 s on both servers

var stlsMode bool // kind stls: POP3 TLSEnabled without ForceTLS

func newWorld(retention string, tlsPOP3 bool) (*world, error) {
	storage.Constructors["memory"] = mem.New
	for _, e := range os.Environ() {
		if strings.HasPrefix(e, "INBUCKET_") {
			os.Unsetenv(strings.SplitN(e, "=", 2)[0])
		}
	}
	setenv("INBUCKET_SMTP_ADDR", "127.0.0.1:0")
	setenv("INBUCKET_POP3_ADDR", "127.0.0.1:0")
	setenv("INBUCKET_SMTP_TIMEOUT", "30s")
	setenv("INBUCKET_POP3_TIMEOUT", "30s")
	if shortTimeouts {
		setenv("INBUCKET_SMTP_TIMEOUT", "1s")
		setenv("INBUCKET_POP3_TIMEOUT", "1s")
	}
	setenv("INBUCKET_STORAGE_TYPE", "memory")
	setenv("INBUCKET_STORAGE_RETENTIONPERIOD", retention)
	setenv("INBUCKET_STORAGE_RETENTIONSLEEP", "40ms")
	setenv("INBUCKET_WEB_MONITORHISTORY", "5")
	w := &world{tls: tlsPOP3, stls: stlsMode}
	if tlsPOP3 || stlsMode {
		base := os.Getenv("VERIF_WORKDIR")
		if base == "" {
			base = os.TempDir()
		}
		dir, err := os.MkdirTemp(base, "c19tls")
		if err != nil {
			return nil, err
		}
		w.tmpDir = dir
		cf, kf, err := selfSigned(dir)
		if err != nil {
			return nil, err
		}
		setenv("INBUCKET_POP3_TLSENABLED", "true")
		if tlsPOP3 {
			setenv("INBUCKET_POP3_FORCETLS", "true")
		}
		setenv("INBUCKET_POP3_TLSCERT", cf)
		setenv("INBUCKET_POP3_TLSPRIVKEY", kf)
	}
	conf, err := config.Process()
	if err != nil {
		return nil, err
	}
	ctx, cancel := context.WithCancel(context.Background())
	w.cancel = cancel
	extHost := extension.NewHost()
	w.store, err = storage.FromConfig(conf.Storage, extHost)
	if err != nil {
		return nil, err
	}
	addrPolicy := &policy.Addressing{Config: conf}
	w.hub = msghub.New(conf.Web.MonitorHistory, extHost)
	mm := &message.StoreManager{AddrPolicy: addrPolicy, Store: w.store, ExtHost: extHost}
	w.rs = storage.NewRetentionScanner(conf.Storage, w.store)
	w.gs = &gateStore{Store: w.store}
	w.pop3, err = pop3.NewServer(conf.POP3, w.gs)
	if err != nil {
		return nil, err
	}
	w.smtp = smtp.NewServer(conf.SMTP, mm, addrPolicy, extHost)

	w.hubDone = make(chan struct{})
	go func() { w.hub.Start(ctx); close(w.hubDone) }()
	w.hubEvents = &recorder{}
	w.hub.AddListener(w.hubEvents)
	w.rsDone = make(chan struct{})
	go func() { w.rs.Start(ctx); close(w.rsDone) }()
	ready := [2]chan struct{}{make(chan struct{}), make(chan struct{})}
	w.startDone = [2]chan struct{}{make(chan struct{}), make(chan struct{})}
	go func() { w.smtp.Start(ctx, func() { close(ready[0]) }); close(w.startDone[0]) }()
	go func() { w.pop3.Start(ctx, func() { close(ready[1]) }); close(w.startDone[1]) }()
	for i := 0; i < 2; i++ {
		select {
		case <-ready[i]:
		case <-time.After(longWait):
			cancel()
			return nil, fmt.Errorf("server %d did not become ready", i)
		}
	}
	w.addr[0] = w.smtp.VerifAddr().String()
	w.addr[1] = w.pop3.VerifAddr().String()
	// From their next Accept call on the accept loops go through the wrapper; one complete little session
	// each gets them there (they are blocked in the original listener's Accept right now).
	w.smtp.VerifWrapListener(func(l net.Listener) net.Listener { return &holdListener{Listener: l, p: 0} })
	w.pop3.VerifWrapListener(func(l net.Listener) net.Listener { return &holdListener{Listener: l, p: 1} })
	for p := 0; p < 2; p++ {
		conn, err := w.dial(p)
		if err != nil {
			cancel()
			return nil, fmt.Errorf("warm-up connection to server %d failed", p)
		}
		c := &client{proto: p, conn: conn, r: bufio.NewReader(conn)}
		c.readReply()
		c.cmd("QUIT")
		c.waitClosed()
		conn.Close()
	}
	return w, nil
}

func waitCh(c chan struct{}, d time.Duration) bool {
	select {
	case <-c:
		return true
	case <-time.After(d):
		return false
	}
}

// dial connects to server p; POP3 clients speak TLS when the server is in ForceTLS mode.
func (w *world) dial(p int) (net.Conn, error) {
	conn, err := net.DialTimeout("tcp", w.addr[p], longWait)
	if err != nil {
		return nil, err
	}
	if p == 1 && w.tls {
		return tls.Client(conn, &tls.Config{InsecureSkipVerify: true}), nil
	}
	return conn, nil
}

// ---- client sessions -------------------------------------------------------------------

type client struct {
	proto   int // 0 SMTP, 1 POP3
	conn    net.Conn
	r       *bufio.Reader
	state   string
	mailbox string
	hold    *holdReq
	open    bool
	marked  bool
}

func (c *client) readReply() string {
	c.conn.SetReadDeadline(time.Now().Add(longWait))
	for {
		line, err := c.r.ReadString('\n')
		if err != nil {
			if ne, ok := err.(net.Error); ok && ne.Timeout() {
				return "timeout"
			}
			return "eof"
		}
		line = strings.TrimRight(line, "\r\n")
		if c.proto == 1 {
			if strings.HasPrefix(line, "+OK") {
				return "+OK"
			}
			return "-ERR"
		}
		if len(line) >= 4 && line[3] == '-' {
			continue
		}
		if len(line) >= 3 {
			return line[:3]
		}
		return "short"
	}
}

func (c *client) cmd(s string) string {
	c.conn.SetWriteDeadline(time.Now().Add(longWait))
	if _, err := c.conn.Write([]byte(s + "\r\n")); err != nil {
		return "werr"
	}
	return c.readReply()
}

func (c *client) waitClosed() bool {
	c.conn.SetReadDeadline(time.Now().Add(longWait))
	_, err := c.r.ReadString('\n')
	if ne, ok := err.(net.Error); ok && ne.Timeout() {
		return false
	}
	return err != nil
}

var smtpOrder = []string{"greeted", "helo", "mail", "rcpt", "data", "body"}
var pop3Order = []string{"greeted", "user", "pass", "dele"}

func idx(xs []string, s string) int {
	for i, x := range xs {
		if x == s {
			return i
		}
	}
	return -1
}

func (c *client) advance(target string) string {
	order := smtpOrder
	if c.proto == 1 {
		order = pop3Order
	}
	from, to := idx(order, c.state), idx(order, target)
	if from < 0 || to < 0 || to <= from {
		return "?"
	}
	last := "?"
	for i := from + 1; i <= to; i++ {
		switch order[i] {
		case "helo":
			last = c.cmd("HELO client.example")
		case "mail":
			last = c.cmd("MAIL FROM:<sender@example.org>")
		case "rcpt":
			last = c.cmd("RCPT TO:<" + c.mailbox + "@inbucket.local>")
		case "data":
			last = c.cmd("DATA")
		case "body":
			c.conn.SetWriteDeadline(time.Now().Add(longWait))
			if _, err := c.conn.Write([]byte("Subject: in flight\r\n\r\nfirst line\r\n")); err != nil {
				last = "werr"
			} else {
				last = "."
			}
		case "user":
			last = c.cmd("USER " + c.mailbox)
		case "pass":
			last = c.cmd("PASS secret")
		case "dele":
			last = c.cmd("DELE 1")
			c.marked = true
		}
		c.state = order[i]
	}
	return last
}

func (w *world) count(mb string) int {
	ms, err := w.store.GetMessages(mb)
	if err != nil {
		return -1
	}
	return len(ms)
}

// seed puts one message into a mailbox through a complete SMTP session.
func (w *world) seed(mb string) bool {
	conn, err := net.DialTimeout("tcp", w.addr[0], longWait)
	if err != nil {
		return false
	}
	c := &client{proto: 0, conn: conn, r: bufio.NewReader(conn), state: "greeted", mailbox: mb}
	defer conn.Close()
	if c.readReply() != "220" || c.advance("body") != "." {
		return false
	}
	if c.cmd("second line\r\n.") != "250" {
		return false
	}
	c.cmd("QUIT")
	c.waitClosed()
	return true
}

func (w *world) drain(p int, expectBlocked bool) string {
	if w.drainDone[p] == nil {
		ch := make(chan struct{})
		w.drainDone[p] = ch
		go func() {
			if p == 0 {
				w.smtp.Drain()
			} else {
				w.pop3.Drain()
			}
			close(ch)
		}()
	}
	d := longWait
	if expectBlocked {
		d = shortWait
	}
	if waitCh(w.drainDone[p], d) {
		w.drainDone[p] = nil
		return "returned"
	}
	return "blocked"
}

func runLife(ops []string, tlsPOP3 bool) []string {
	w, err := newWorld("1h", tlsPOP3)
	if err != nil {
		return []string{"SETUP-FAILED", vh.HS(err.Error())}
	}
	cs := map[int]*client{}
	outs := []string{}
	// POP3 sessions need a message to delete: seed before anything else.
	for _, o := range ops {
		if len(o) > 1 && (o[0] == 'o' || o[0] == 'O' || o[0] == 'A') && strings.HasSuffix(o, ":P") {
			i := vh.AtoI(strings.Split(o[1:], ":")[0])
			if !w.seed(fmt.Sprintf("p%d", i)) {
				w.cancel()
				return []string{"SEED-FAILED"}
			}
		}
	}
	time.Sleep(20 * time.Millisecond) // the seeding sessions' goroutines have ended (their connections are closed)
	doCancel := func() {
		if !w.cancelled {
			w.cancel()
			w.cancelled = true
			waitCh(w.startDone[0], longWait)
			waitCh(w.startDone[1], longWait)
		}
	}
	closeClient := func(c *client) {
		if c.hold != nil {
			close(c.hold.release)
			c.hold = nil
		}
		if c.open {
			c.conn.Close()
			c.open = false
			w.openByProt[c.proto]--
		}
	}
	defer func() {
		if w.tmpDir != "" {
			os.RemoveAll(w.tmpDir)
		}
		w.gs.open()
		holdNext[0].Store(nil)
		holdNext[1].Store(nil)
		holdAccept[0].Store(nil)
		holdAccept[1].Store(nil)
		for _, c := range cs {
			closeClient(c)
		}
		w.cancel()
	}()

	for _, o := range ops {
		f := strings.Split(o, ":")
		switch {
		case o == "k":
			doCancel()
			outs = append(outs, ".")
		case o == "ES" || o == "EP":
			p := 0
			if o == "EP" {
				p = 1
			}
			failAccept[p].Store(true)
			if conn, err := net.DialTimeout("tcp", w.addr[p], longWait); err == nil {
				conn.Close()
			}
			var nch <-chan error
			if p == 0 {
				nch = w.smtp.Notify()
			} else {
				nch = w.pop3.Notify()
			}
			select {
			case err := <-nch:
				if err != nil {
					outs = append(outs, "notified")
				} else {
					outs = append(outs, "silent")
				}
			case <-time.After(longWait):
				outs = append(outs, "silent")
			}
		case o == "G":
			w.gs.shut()
			outs = append(outs, ".")
		case o == "U":
			w.gs.open()
			outs = append(outs, ".")
		case o[0] == 't':
			c := cs[vh.AtoI(o[1:])]
			if c == nil || !c.open || c.hold != nil || c.proto != 1 {
				outs = append(outs, "?")
				continue
			}
			r := c.cmd("STLS")
			if r != "+OK" {
				outs = append(outs, r)
				continue
			}
			tc := tls.Client(c.conn, &tls.Config{InsecureSkipVerify: true})
			tc.SetDeadline(time.Now().Add(longWait))
			if err := tc.Handshake(); err != nil {
				outs = append(outs, "tlsfail")
				continue
			}
			tc.SetDeadline(time.Time{})
			c.conn = tc
			c.r = bufio.NewReader(tc)
			// The client's handshake can be over before the server's handler has returned (and has set the
			// server's TLS state): one round trip on the new connection makes the rest of the schedule
			// independent of that race (NOOP is out of sequence in AUTHORIZATION state: one -ERR line).
			c.cmd("NOOP")
			outs = append(outs, "+OK")
		case o[0] == 'b':
			c := cs[vh.AtoI(f[0][1:])]
			if c == nil || !c.open || c.hold != nil || len(f) < 2 {
				outs = append(outs, "?")
				continue
			}
			last := "?"
			if len(f) > 2 && f[2] == "s" {
				// silent variant: nothing at all is sent for <ms> milliseconds (no session of this driver is: it has one
				// goroutine), then ONE NOOP, which must be answered as usual
				time.Sleep(time.Duration(vh.AtoI(f[1])) * time.Millisecond)
				outs = append(outs, c.cmd("NOOP"))
				continue
			}
			until := time.Now().Add(time.Duration(vh.AtoI(f[1])) * time.Millisecond)
			for time.Now().Before(until) {
				last = c.cmd("NOOP")
				if last != "250" && last != "+OK" {
					break
				}
				time.Sleep(200 * time.Millisecond)
			}
			outs = append(outs, last)
		case o[0] == 'q':
			c := cs[vh.AtoI(o[1:])]
			if c == nil || !c.open || c.hold != nil || c.proto != 1 {
				outs = append(outs, "?")
				continue
			}
			outs = append(outs, c.cmd("QUIT"))
		case o[0] == 'e':
			c := cs[vh.AtoI(o[1:])]
			if c == nil || !c.open || c.proto != 1 {
				outs = append(outs, "?")
				continue
			}
			c.waitClosed()
			closeClient(c)
			outs = append(outs, fmt.Sprintf("+OK/%d", w.count(c.mailbox)))
		case o == "DS" || o == "DP":
			p := 0
			if o == "DP" {
				p = 1
			}
			outs = append(outs, w.drain(p, w.openByProt[p] > 0))
		case o == "xP":
			// a plain-text client (or a port scanner) on the TLS port: it must simply be dropped
			conn, err := net.DialTimeout("tcp", w.addr[1], longWait)
			if err != nil {
				outs = append(outs, "refused")
				continue
			}
			c := &client{proto: 1, conn: conn, r: bufio.NewReader(conn)}
			conn.SetWriteDeadline(time.Now().Add(longWait))
			conn.Write([]byte("USER plain\r\nQUIT\r\n"))
			dropped := false
			for i := 0; i < 8 && !dropped; i++ {
				conn.SetReadDeadline(time.Now().Add(longWait))
				if _, err := c.r.ReadString('\n'); err != nil {
					ne, isNet := err.(net.Error)
					dropped = !(isNet && ne.Timeout())
					break
				}
			}
			conn.Close()
			if dropped {
				outs = append(outs, "dropped")
			} else {
				outs = append(outs, "alive")
			}
		case o == "nS" || o == "nP":
			p := 0
			if o == "nP" {
				p = 1
			}
			conn, err := w.dial(p)
			if err != nil {
				outs = append(outs, "refused")
				continue
			}
			c := &client{proto: p, conn: conn, r: bufio.NewReader(conn)}
			g := c.readReply()
			if g == "220" || g == "+OK" {
				c.cmd("QUIT")
				c.waitClosed()
				outs = append(outs, "accepted")
			} else {
				outs = append(outs, "refused")
			}
			conn.Close()
		case o[0] == 'A':
			i := vh.AtoI(f[0][1:])
			p := 0
			if len(f) > 1 && f[1] == "P" {
				p = 1
			}
			h := &holdReq{parked: make(chan struct{}), release: make(chan struct{})}
			holdAccept[p].Store(h)
			conn, err := w.dial(p)
			if err != nil {
				holdAccept[p].Store(nil)
				outs = append(outs, "refused")
				continue
			}
			if !waitCh(h.parked, shortWait*4) {
				holdAccept[p].Store(nil)
				conn.Close()
				outs = append(outs, "refused")
				continue
			}
			c := &client{proto: p, conn: conn, r: bufio.NewReader(conn), state: "held", open: true, hold: h}
			c.mailbox = fmt.Sprintf("%s%d", map[int]string{0: "s", 1: "p"}[p], i)
			cs[i] = c
			w.openByProt[p]++
			outs = append(outs, "parked")
		case o[0] == 'o' || o[0] == 'O':
			i := vh.AtoI(f[0][1:])
			p := 0
			if len(f) > 1 && f[1] == "P" {
				p = 1
			}
			var h *holdReq
			if o[0] == 'O' {
				h = &holdReq{parked: make(chan struct{}), release: make(chan struct{})}
				holdNext[p].Store(h)
			}
			conn, err := w.dial(p)
			if err != nil {
				holdNext[p].Store(nil)
				outs = append(outs, "refused")
				continue
			}
			c := &client{proto: p, conn: conn, r: bufio.NewReader(conn), state: "greeted", open: true}
			c.mailbox = fmt.Sprintf("%s%d", map[int]string{0: "s", 1: "p"}[p], i)
			if h != nil {
				if waitCh(h.parked, longWait) {
					c.hold = h
					c.state = "held"
					cs[i] = c
					w.openByProt[p]++
					outs = append(outs, "held")
				} else {
					holdNext[p].Store(nil)
					conn.Close()
					outs = append(outs, "refused")
				}
				continue
			}
			g := c.readReply()
			if g == "220" || g == "+OK" {
				cs[i] = c
				w.openByProt[p]++
				outs = append(outs, g)
			} else {
				conn.Close()
				outs = append(outs, "refused")
			}
		case o[0] == 'L':
			c := cs[vh.AtoI(o[1:])]
			if c == nil || c.hold == nil {
				outs = append(outs, "?")
				continue
			}
			close(c.hold.release)
			c.hold = nil
			c.state = "greeted"
			outs = append(outs, c.readReply())
		case o[0] == 'p':
			c := cs[vh.AtoI(f[0][1:])]
			if c == nil || !c.open || c.hold != nil || len(f) < 2 {
				outs = append(outs, "?")
				continue
			}
			outs = append(outs, c.advance(f[1]))
		case o[0] == 'a':
			c := cs[vh.AtoI(o[1:])]
			if c == nil || !c.open {
				outs = append(outs, "?")
				continue
			}
			closeClient(c)
			outs = append(outs, ".")
		case o[0] == 'f':
			c := cs[vh.AtoI(o[1:])]
			if c == nil || !c.open || c.hold != nil {
				outs = append(outs, "?")
				continue
			}
			if c.proto == 0 {
				dc := "-"
				if c.state == "data" {
					c.advance("body")
				}
				if c.state == "body" {
					dc = c.cmd("second line\r\n.")
				}
				qc := c.cmd("QUIT")
				c.waitClosed()
				closeClient(c)
				outs = append(outs, fmt.Sprintf("%s/%s/%d", dc, qc, w.count(c.mailbox)))
			} else {
				qc := c.cmd("QUIT")
				c.waitClosed()
				closeClient(c)
				outs = append(outs, fmt.Sprintf("%s/%d", qc, w.count(c.mailbox)))
			}
		default:
			outs = append(outs, "?")
		}
	}
	// End of the case: shut down whatever is left and check that waiting ends.
	w.gs.open()
	doCancel()
	for _, c := range cs {
		closeClient(c)
	}
	outs = append(outs, w.drain(0, false), w.drain(1, false))
	if within(longWait, w.rs.Join) {
		outs = append(outs, "joined")
	} else {
		outs = append(outs, "blocked")
	}
	if waitCh(w.hubDone, longWait) && within(longWait, w.hub.Sync) {
		outs = append(outs, "ok")
	} else {
		outs = append(outs, "blocked")
	}
	if within(longWait, func() {
		for i := 0; i < 250; i++ {
			w.hub.Dispatch(event.MessageMetadata{Mailbox: "late", ID: strconv.Itoa(i)})
			w.hub.Delete("late", strconv.Itoa(i))
		}
		w.hub.RemoveListener(w.hubEvents)
		w.hub.AddListener(w.hubEvents)
	}) {
		outs = append(outs, "ok")
	} else {
		outs = append(outs, "blocked")
	}
	return outs
}

func within(d time.Duration, f func()) bool {
	done := make(chan struct{})
	go func() { f(); close(done) }()
	return waitCh(done, d)
}

// ---- retention scanner -----------------------------------------------------------------

// ret <period> <n> <when>: n mailboxes of one message each.
//
//	fields: Start/Join — after cancel (or at once when the scanner is disabled) Join returns: joined|blocked
//	        DoScan     — cancelled at <when> (pre: before the call, mid: after ~2 mailboxes, none): returns within
//	                     the deadline: returned|blocked, and well before a full pass would end: early|late
func runRet(period string, n int, when string) []string {
	w, err := newWorld(period, false)
	if err != nil {
		return []string{"SETUP-FAILED"}
	}
	defer w.cancel()
	for i := 0; i < n; i++ {
		if !w.seed(fmt.Sprintf("r%d", i)) {
			return []string{"SEED-FAILED"}
		}
	}
	outs := []string{}
	ctx2, cancel2 := context.WithCancel(context.Background())
	defer cancel2()
	if when == "pre" {
		cancel2()
	}
	scanDone := make(chan struct{})
	t0 := time.Now()
	go func() { _ = w.rs.DoScan(ctx2); close(scanDone) }()
	if when == "mid" {
		time.Sleep(90 * time.Millisecond)
		cancel2()
	}
	if waitCh(scanDone, longWait+time.Duration(n)*60*time.Millisecond) {
		el := time.Since(t0)
		full := time.Duration(n) * 40 * time.Millisecond
		if el < full/2 {
			outs = append(outs, "returned", "early")
		} else {
			outs = append(outs, "returned", "late")
		}
	} else {
		outs = append(outs, "blocked", "-")
	}
	// Start/Join of the world's own scanner.
	disabled := period == "0s"
	if !disabled {
		if waitCh(w.rsDone, shortWait) {
			outs = append(outs, "stopped-early")
		} else {
			outs = append(outs, "running")
		}
		w.cancel()
	} else {
		outs = append(outs, "disabled")
	}
	if within(longWait, w.rs.Join) && waitCh(w.rsDone, longWait) {
		outs = append(outs, "joined")
	} else {
		outs = append(outs, "blocked")
	}
	return outs
}

// countStore counts the per-mailbox callbacks of VisitMailboxes and cancels a context just before the k-th.
type countStore struct {
	storage.Store
	k       int
	cancel  context.CancelFunc
	calls   int
	after   int // callbacks invoked at or after the cancellation
	tripped bool
}

func (c *countStore) VisitMailboxes(f func([]storage.Message) (cont bool)) error {
	return c.Store.VisitMailboxes(func(ms []storage.Message) bool {
		if c.calls == c.k && !c.tripped {
			c.tripped = true
			c.cancel()
		}
		c.calls++
		if c.tripped {
			c.after++
		}
		return f(ms)
	})
}

func runScan(n, nexpired, k int, kind string) []string {
	storage.Constructors["memory"] = mem.New
	var st storage.Store
	var err error
	if kind == "file" {
		base := os.Getenv("VERIF_WORKDIR")
		if base == "" {
			base = os.TempDir()
		}
		dir, derr := os.MkdirTemp(base, "c19scan")
		if derr != nil {
			return []string{"SETUP-FAILED"}
		}
		defer os.RemoveAll(dir)
		st, err = file.New(config.Storage{MailboxMsgCap: 100, Params: map[string]string{"path": dir}}, extension.NewHost())
	} else {
		st, err = mem.New(config.Storage{MailboxMsgCap: 100}, extension.NewHost())
	}
	if err != nil {
		return []string{"SETUP-FAILED"}
	}
	for i := 0; i < n; i++ {
		age := time.Minute
		if i < nexpired {
			age = 3 * time.Hour
		}
		body := "Subject: s\r\n\r\nb\r\n"
		d := &message.Delivery{Meta: event.MessageMetadata{Mailbox: fmt.Sprintf("box%03d", i), From: &mail.Address{Address: "a@b.org"},
			To: []*mail.Address{{Address: "c@d.org"}}, Date: time.Now().Add(-age), Subject: "s", Size: int64(len(body))},
			Reader: strings.NewReader(body)}
		if _, err := st.AddMessage(d); err != nil {
			return []string{"SETUP-ADD-FAILED"}
		}
	}
	ctx, cancel := context.WithCancel(context.Background())
	defer cancel()
	cs := &countStore{Store: st, k: k, cancel: cancel}
	rs := storage.NewRetentionScanner(config.Storage{RetentionPeriod: time.Hour, RetentionSleep: 2 * time.Millisecond}, cs)
	done := make(chan struct{})
	go func() { _ = rs.DoScan(ctx); close(done) }()
	r := "returned"
	if !waitCh(done, longWait+time.Duration(n)*10*time.Millisecond) {
		r = "blocked"
	}
	return []string{fmt.Sprintf("visited=%d", cs.after), r}
}

// Every case runs in a child process: a panic in a bare goroutine of the code under test (e.g. a
// send on a closed channel during the drain) kills the whole process, and that must become an
// observation of THIS case, not the end of the run.
func exec(kind string, in []string) []string {
	if asmsys.Is(kind) {
		return asmsys.Exec(kind, in)
	}
	self, err := os.Executable()
	if err != nil {
		return run1(kind, in)
	}
	return execChild(self, kind, in, 0)
}

func execChild(self, kind string, in []string, attempt int) []string {
	cmd := osexec.Command(self, append([]string{"child", kind}, in...)...)
	var stdout, stderr bytes.Buffer
	cmd.Stdout, cmd.Stderr = &stdout, &stderr
	if err := cmd.Run(); err != nil {
		msg := stderr.String()
		if i := strings.Index(msg, "panic:"); i >= 0 {
			msg = msg[i:]
		} else if i := strings.Index(msg, "fatal error:"); i >= 0 {
			msg = msg[i:]
		}
		if j := strings.Index(msg, "\n"); j > 0 {
			msg = msg[:j]
		}
		fmt.Fprintf(os.Stderr, "case %s %s: child died: %v\n%s\n", kind, strings.Join(in, " "), err, stderr.String())
		return []string{"CRASH", vh.HS(msg)}
	}
	f := strings.Fields(stdout.String())
	if attempt < 3 && vh.PortClash(f) {
		return execChild(self, kind, in, attempt+1)
	}
	return f
}

// pickPort: bind-note-release.
func pickPort() (string, error) {
	l, err := net.Listen("tcp4", "127.0.0.1:0")
	if err != nil {
		return "", err
	}
	a := l.Addr().String()
	l.Close()
	return a, nil
}

// portState: closed = a dial is refused and the address can be bound again (within a grace period).
func portState(addr string) string {
	deadline := time.Now().Add(2 * time.Second)
	for {
		dialOK := false
		if c, err := net.DialTimeout("tcp4", addr, 300*time.Millisecond); err == nil {
			c.Close()
			dialOK = true
		}
		bindOK := false
		if l, err := net.Listen("tcp4", addr); err == nil {
			l.Close()
			bindOK = true
		}
		if !dialOK && bindOK {
			return "closed"
		}
		if time.Now().After(deadline) {
			if dialOK {
				return "listening"
			}
			return "bound"
		}
		time.Sleep(50 * time.Millisecond)
	}
}

func runEarly(mode, busy string) []string {
	base := os.Getenv("VERIF_WORKDIR")
	if base == "" {
		base = os.TempDir()
	}
	dir, err := os.MkdirTemp(base, "c19early")
	if err != nil {
		return []string{"SETUPERR", "-"}
	}
	defer os.RemoveAll(dir)
	for _, e := range os.Environ() {
		if strings.HasPrefix(e, "INBUCKET_") {
			os.Unsetenv(strings.SplitN(e, "=", 2)[0])
		}
	}
	storage.Constructors["memory"] = mem.New
	setenv("INBUCKET_STORAGE_TYPE", "memory")
	setenv("INBUCKET_WEB_UIDIR", dir)
	names := []string{"web", "smtp", "pop3"}
	addrs := map[string]string{}
	var holder net.Listener
	for _, n := range names {
		a, err := pickPort()
		if err != nil {
			return []string{"SETUPERR", "-"}
		}
		addrs[n] = a
		setenv("INBUCKET_"+strings.ToUpper(n)+"_ADDR", a)
	}
	if mode == "clash" {
		holder, err = net.Listen("tcp4", addrs[busy])
		if err != nil {
			return []string{"SETUPERR", vh.HS(err.Error())}
		}
		defer holder.Close()
	}
	conf, err := config.Process()
	if err != nil {
		return []string{"SETUPERR", "-"}
	}
	svc, err := server.FullAssembly(conf)
	if err != nil {
		return []string{"SETUPERR", vh.HS(err.Error())}
	}
	ctx, cancel := context.WithCancel(context.Background())
	defer cancel()
	switch mode {
	case "pre":
		cancel()
		svc.Start(ctx, func() {})
	case "race":
		svc.Start(ctx, func() {})
		cancel()
	case "clash":
		svc.Start(ctx, func() {})
		select {
		case err := <-svc.Notify():
			// the failure must be the one we arranged; any other "address already in use" is the sandbox
			if err == nil || !strings.Contains(err.Error(), "address already in use") {
				return []string{"fail:unexpected-notify"}
			}
		case <-time.After(longWait):
			return []string{"fail:bind-failure-not-notified"}
		}
		cancel()
	}
	outs := []string{}
	for _, n := range names {
		if mode == "clash" && n == busy {
			outs = append(outs, n+"=held-by-harness")
			continue
		}
		outs = append(outs, n+"="+portState(addrs[n]))
	}
	switch {
	case !within(longWait, svc.SMTPServer.Drain):
		outs = append(outs, "stuck:smtp-drain")
	case !within(longWait, svc.POP3Server.Drain):
		outs = append(outs, "stuck:pop3-drain")
	case !within(longWait, svc.RetentionScanner.Join):
		outs = append(outs, "stuck:retention-join")
	default:
		outs = append(outs, "returns")
	}
	return outs
}

// runBoot: Services.Start with some listeners unable to bind (their address is held by the driver).
func runBoot(mask string, period string) []string {
	if len(mask) != 3 {
		return []string{"BADINPUT"}
	}
	base := os.Getenv("VERIF_WORKDIR")
	if base == "" {
		base = os.TempDir()
	}
	dir, err := os.MkdirTemp(base, "c19boot")
	if err != nil {
		return []string{"fail:setup"}
	}
	defer os.RemoveAll(dir)
	for _, e := range os.Environ() {
		if strings.HasPrefix(e, "INBUCKET_") {
			os.Unsetenv(strings.SplitN(e, "=", 2)[0])
		}
	}
	storage.Constructors["memory"] = mem.New
	setenv("INBUCKET_STORAGE_TYPE", "memory")
	setenv("INBUCKET_STORAGE_RETENTIONPERIOD", period)
	setenv("INBUCKET_WEB_UIDIR", dir)
	for i, name := range []string{"WEB", "SMTP", "POP3"} {
		addr := "127.0.0.1:0"
		if mask[i] == '1' {
			l, err := net.Listen("tcp4", "127.0.0.1:0")
			if err != nil {
				return []string{"fail:setup"}
			}
			defer l.Close()
			addr = l.Addr().String()
		}
		setenv("INBUCKET_"+name+"_ADDR", addr)
	}
	conf, err := config.Process()
	if err != nil {
		return []string{"fail:config"}
	}
	svc, err := server.FullAssembly(conf)
	if err != nil {
		return []string{"fail:assembly:" + vh.HS(err.Error())}
	}
	ctx, cancel := context.WithCancel(context.Background())
	defer cancel()
	ready := make(chan struct{})
	svc.Start(ctx, func() { close(ready) })
	isReady, notified := false, false
	select {
	case <-ready:
		isReady = true
	case <-svc.Notify():
		notified = true
	case <-time.After(longWait * 3):
	}
	// give the other signal a chance to show up, too
	time.Sleep(400 * time.Millisecond)
	if !isReady {
		select {
		case <-ready:
			isReady = true
		default:
		}
	}
	if !notified {
		select {
		case <-svc.Notify():
			notified = true
		default:
		}
	}
	outs := []string{"ready=" + vh.B(isReady), "notified=" + vh.B(notified)}
	// what main() does next
	cancel()
	switch {
	case !within(longWait, svc.SMTPServer.Drain):
		outs = append(outs, "stuck:smtp-drain")
	case !within(longWait, svc.POP3Server.Drain):
		outs = append(outs, "stuck:pop3-drain")
	case !within(longWait, svc.RetentionScanner.Join):
		outs = append(outs, "stuck:retention-join")
	default:
		outs = append(outs, "returns")
	}
	return outs
}

func run1(kind string, in []string) []string {
	switch kind {
	case "boot":
		return runBoot(in[0], in[1])
	case "early":
		return runEarly(in[0], in[1])
	case "scan":
		kind := "mem"
		if len(in) > 3 {
			kind = in[3]
		}
		return runScan(vh.AtoI(in[0]), vh.AtoI(in[1]), vh.AtoI(in[2]), kind)
	case "life", "tls", "lifet", "stls":
		shortTimeouts = kind == "lifet"
		stlsMode = kind == "stls"
		var ops []string
		if in[0] != "-" {
			ops = strings.Split(in[0], ",")
		}
		return runLife(ops, kind == "tls")
	case "ret":
		return runRet(in[0], vh.AtoI(in[1]), in[2])
	}
	return []string{"UNKNOWN-KIND"}
}

func main() {
	if asmsys.ChildMain() {
		return
	}
	zerolog.SetGlobalLevel(zerolog.Disabled)
	verifhook.Set(hookHandler)
	if len(os.Args) >= 3 && os.Args[1] == "child" {
		fmt.Println(strings.Join(run1(os.Args[2], os.Args[3:]), " "))
		return
	}
	vh.Main(gen, exec)
}

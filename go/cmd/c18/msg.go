package main

// `msg <html> <text>`: end-to-end through the web UI's JSON handler. A multipart/alternative
// message holding the two bodies is parsed by enmime, handed to the real
// webui.MailboxMessage handler through a stub manager, and the `html` / `text` members of the
// JSON it renders are what the oracle judges:
//
//	=> <json.text> <json.html == sanitize.HTML(msg.HTML())> <msg.Text()> <URL intervals> <report(json.html)> <start tags of json.html>

import (
	"encoding/json"
	"net/http/httptest"
	"net/mail"
	"strings"
	"time"
	"unicode/utf8"

	"github.com/inbucket/inbucket/v3/pkg/extension/event"
	"github.com/inbucket/inbucket/v3/pkg/message"
	"github.com/inbucket/inbucket/v3/pkg/server/web"
	"github.com/inbucket/inbucket/v3/pkg/webui"
	"github.com/inbucket/inbucket/v3/pkg/webui/sanitize"
	"github.com/jhillyerd/enmime/v2"
	"verifharness/vh"
)

type stubManager struct {
	message.Manager
	msg *message.Message
}

func (s *stubManager) GetMessage(mailbox, id string) (*message.Message, error) { return s.msg, nil }
func (s *stubManager) MailboxForAddress(a string) (string, error)               { return a, nil }

func validUTF8(s string) string {
	if utf8.ValidString(s) {
		return s
	}
	return strings.ToValidUTF8(s, "?")
}

func mimeSource(htmlBody, textBody string) string {
	const b = "=_verif_c18_boundary_7d1f"
	crlf := func(s string) string {
		return strings.ReplaceAll(strings.ReplaceAll(s, "\r\n", "\n"), "\n", "\r\n")
	}
	return "From: a@example.com\r\nTo: b@example.com\r\nSubject: t\r\nMIME-Version: 1.0\r\n" +
		"Content-Type: multipart/alternative; boundary=\"" + b + "\"\r\n\r\n" +
		"--" + b + "\r\nContent-Type: text/plain; charset=utf-8\r\nContent-Transfer-Encoding: 8bit\r\n\r\n" + crlf(textBody) + "\r\n" +
		"--" + b + "\r\nContent-Type: text/html; charset=utf-8\r\nContent-Transfer-Encoding: 8bit\r\n\r\n" + crlf(htmlBody) + "\r\n" +
		"--" + b + "--\r\n"
}

func execMsg(in []string) []string {
	src := mimeSource(vh.US(in[0]), vh.US(in[1]))
	env, err := enmime.ReadEnvelope(strings.NewReader(src))
	if err != nil {
		return []string{"UNPARSABLE"}
	}
	meta := event.MessageMetadata{Mailbox: "box", ID: "1", From: &mail.Address{Address: "a@example.com"},
		To: []*mail.Address{{Address: "b@example.com"}}, Date: time.Unix(1700000000, 0), Subject: "t", Size: int64(len(src))}
	msg := message.New(meta, env)
	ctx := &web.Context{Vars: map[string]string{"name": "box", "id": "1"}, Manager: &stubManager{msg: msg}}
	rec := httptest.NewRecorder()
	req := httptest.NewRequest("GET", "/serve/mailbox/box/1", nil)
	if err := webui.MailboxMessage(rec, req, ctx); err != nil {
		return []string{"HANDLER-ERROR", vh.HS(err.Error())}
	}
	var js struct {
		Text string `json:"text"`
		HTML string `json:"html"`
	}
	if err := json.Unmarshal(rec.Body.Bytes(), &js); err != nil {
		return []string{"BAD-JSON", vh.HS(err.Error())}
	}
	want := ""
	if msg.HTML() != "" {
		w, err := sanitize.HTML(msg.HTML())
		if err != nil {
			return []string{"S" + vh.HS(js.Text), "ERR", vh.HS(msg.Text()), intervals(msg.Text()), "-", "-"}
		}
		want = w
	}
	return []string{"S" + vh.HS(js.Text), vh.B(js.HTML == want), vh.HS(msg.Text()), intervals(msg.Text()), report(js.HTML), finalTags(js.HTML)}
}

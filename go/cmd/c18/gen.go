package main

// Generators of hostile CSS, HTML and text. One PRNG stream (vh.Gen). Structured and mostly
// well-formed inputs, then mutated at the grammar's significant bytes, plus raw streams over
// small significant alphabets.

import (
	"strings"

	"verifharness/vh"
)

var allowedProps = []string{"color", "width", "margin-left", "border", "content", "display", "font-family",
	"text-align", "word-break", "background-color", "clear", "line-height", "height", "overflow"}
var badProps = []string{"position", "behavior", "-moz-binding", "background", "background-image", "top", "left",
	"z-index", "opacity", "list-style-image", "cursor", "filter", "float", "font", "src", "x", "colour",
	"color2", "-color", "_width", "widt", "expression", "@import", "url", "animation-name", "transform"}

func flip(g *vh.Gen, s string, p float64) string {
	b := []byte(s)
	for i, c := range b {
		if g.Chance(p) {
			if 'a' <= c && c <= 'z' {
				b[i] = c - 32
			} else if 'A' <= c && c <= 'Z' {
				b[i] = c + 32
			}
		}
	}
	return string(b)
}

func cssWS(g *vh.Gen) string {
	return g.Pick("", "", "", " ", " ", "\t", "\n", "\r\n", "\f", "  ", "/**/", "/* ; */", "/* x:y */")
}

func cssProp(g *vh.Gen) string {
	var p string
	if g.Chance(0.55) {
		p = g.Pick(allowedProps...)
	} else {
		p = g.Pick(badProps...)
	}
	switch {
	case g.Chance(0.25):
		p = flip(g, p, 0.4)
	case g.Chance(0.06): // Kelvin sign / dotted capital I: lower-cased into ASCII by Go's ToLower
		p = strings.Replace(p, "k", "K", 1)
		p = strings.Replace(p, "i", "İ", 1)
	case g.Chance(0.06): // CSS escape inside the identifier
		i := g.Intn(len(p))
		p = p[:i] + "\\" + strings.ToUpper(strconvHex(p[i])) + g.Pick(" ", "", "\t") + p[i+1:]
	case g.Chance(0.04):
		p = p + g.Pick("\xff", "é", "\\", "\\;", "-", "_", "0")
	case g.Chance(0.03):
		p = g.Pick("\xef\xbb\xbf", "-", "--", "*", "_", "#", ".", "1") + p
	}
	return p
}

func strconvHex(c byte) string {
	const d = "0123456789abcdef"
	return string([]byte{d[c>>4], d[c&15]})
}

func cssValue(g *vh.Gen, depth int) string {
	var sb strings.Builder
	n := 1 + g.Intn(3)
	for i := 0; i < n; i++ {
		if i > 0 {
			sb.WriteString(g.Pick(" ", " ", ",", ", ", "/", ""))
		}
		switch g.Intn(22) {
		case 0, 1, 2:
			sb.WriteString(g.Pick("red", "blue", "none", "fixed", "absolute", "inherit", "solid", "bold", "center", "auto"))
		case 3, 4:
			sb.WriteString(g.Pick("0", "1", "12", "1.5", ".5", "100", "-1", "+2", "1e3"))
		case 5, 6:
			sb.WriteString(g.Pick("1px", "2em", "100%", "50%", "1.5rem", "10pt", "3x\\;y", "90deg"))
		case 7:
			sb.WriteString(g.Pick("#fff", "#ABCDEF", "#", "#-", "#12345678", "#\xff"))
		case 8:
			sb.WriteString(g.Pick(`"a"`, `'b'`, `"a;b"`, `'x:y;z'`, `"\""`, `'\''`, `"a\`+"\n"+`b"`, `"é"`, `""`, `"a'b"`, `'a"b'`,
				`"</style>"`, `"position:fixed;"`, `"\3b "`, `"a`+"\t"+`b"`))
		case 9:
			sb.WriteString(g.Pick(`"unclosed`, `'unclosed;color:red`, `"a`+"\n"+`b"`, `'`, `"`))
		case 10, 11:
			sb.WriteString(g.Pick("url(a.png)", "url( 'a;b' )", `url("javascript:alert(1)")`, "url(javascript:alert(1))", "url(a;b)",
				"URL(a;position:fixed;b)", "Url(x)", "url(a b;position:fixed", "url(a(;top:0;b)", "url()", "url(  )", "url(\\))",
				"url(data:text/html;base64,AAAA)", "url('a", "url(a\nb)"))
		case 12:
			sb.WriteString(g.Pick("expression(alert(1))", "rgb(1,2,3)", "calc(1px + 2px)", "attr(x)", "f(", "f(;", "var(--x;y)", "image-set(url(a) 1x)"))
		case 13:
			sb.WriteString(g.Pick("/* c */", "/* ; */", "/*;color:red*/", "/**/", "/***/", "/* * / */", "/*/", "/* unclosed", "/ *", "*/", "/*;*/;"))
		case 14:
			sb.WriteString(g.Pick("!important", "! important", "!", "@import", "@media x {", "@", "@;", "@x;y"))
		case 15:
			sb.WriteString(g.Pick("{", "}", "{}", "{;}", "(", ")", "[", "]", "[;]", "(;)", "{position:fixed}", "};top:0"))
		case 16:
			sb.WriteString(g.Pick("<!--", "-->", "<!--;-->", "<", ">", "</style>", "<script>", "&#59;", "&quot;", "&", "&;"))
		case 17:
			sb.WriteString(g.Pick("U+0-7F", "U+26", "u+26", "U+???", "~=", "|=", "^=", "$=", "*=", "~", "|", "^", "$", "*", "=", "+", "%", ":", "::", "."))
		case 18:
			sb.WriteString(g.Pick("\x00", "\xff", "\xc3", "\xe2\x84", "\ufeff", "K", "\\", "\\\n", "\\;", "\\3b", "\\3B ", "\\00003b", "\\\"", "\x7f", "\x01", "\x1b"))
		case 19:
			sb.WriteString(g.Pick("\r", "\r\n", "\n", "\f", "\t", "\v", " "))
		case 20:
			if depth < 2 {
				sb.WriteString(cssDecl(g, depth+1))
			}
		default:
			sb.WriteString(g.Pick("a", "b-c", "_x", "-x", "--y", "x1", "é", "a\\62 c"))
		}
	}
	return sb.String()
}

func cssDecl(g *vh.Gen, depth int) string {
	if g.Chance(0.06) {
		return cssValue(g, depth) // a declaration that does not start with an identifier
	}
	colon := g.Pick(":", ":", ":", ":", " :", ": ", "", "=", "::", ";")
	return cssWS(g) + cssProp(g) + cssWS(g) + colon + cssWS(g) + cssValue(g, depth)
}

func genCSS(g *vh.Gen) string {
	var sb strings.Builder
	if g.Chance(0.03) {
		sb.WriteString(g.Pick("\ufeff", "\xef\xbb", ";", ";;", "}"))
	}
	n := g.Intn(5)
	if g.Chance(0.5) {
		n = 1 + g.Intn(3)
	}
	for i := 0; i < n; i++ {
		sb.WriteString(cssDecl(g, 0))
		sb.WriteString(g.Pick(";", ";", ";", ";", "; ", " ;", ";;", "", "\n", ";/**/"))
	}
	return sb.String()
}

func mutate(g *vh.Gen, s string, alphabet string) string {
	b := []byte(s)
	k := g.Intn(4)
	for i := 0; i < k && len(b) > 0; i++ {
		p := g.Intn(len(b))
		switch g.Intn(4) {
		case 0:
			b = append(b[:p], b[p+1:]...)
		case 1:
			b = append(b[:p], append([]byte{alphabet[g.Intn(len(alphabet))]}, b[p:]...)...)
		case 2:
			b[p] = alphabet[g.Intn(len(alphabet))]
		default:
			q := p + g.Intn(len(b)-p)
			b = append(b[:p], b[q:]...)
		}
	}
	return string(b)
}

func randOver(g *vh.Gen, alphabet []string, max int) string {
	var sb strings.Builder
	n := g.Intn(max)
	for i := 0; i < n; i++ {
		sb.WriteString(alphabet[g.Intn(len(alphabet))])
	}
	return sb.String()
}

var cssAlphabet = []string{"color", "top", ":", ";", ";", " ", "/*", "*/", "\"", "'", "\\", "url(", ")", "(", "{", "}", "a", "1", "#", "@",
	"\n", "<!--", "-->", "!", "-", ".", "%", "\xff", "\x00", "K", "U+", "=", "~", "WIDTH", "x"}

// ------------------------------------------------------------------------ HTML

var okTags = []string{"p", "div", "span", "a", "b", "i", "table", "tr", "td", "th", "img", "br", "hr", "h1", "ul", "li", "center",
	"font", "blockquote", "pre", "code", "em", "strong", "tbody", "thead", "section", "details", "summary", "abbr", "q", "time", "col"}
var badTags = []string{"script", "style", "iframe", "frame", "frameset", "object", "embed", "form", "input", "button", "textarea", "select",
	"svg", "math", "link", "meta", "base", "title", "xmp", "plaintext", "noscript", "noembed", "noframes", "template", "body", "html", "head",
	"applet", "video", "audio", "source", "marquee", "isindex", "keygen", "option", "image", "listing", "annotation-xml", "foreignObject", "mglyph"}

func jsURL(g *vh.Gen) string {
	return g.Pick("javascript:alert(1)", "JaVaScRiPt:alert(1)", "java\tscript:alert(1)", "java\nscript:alert(1)", " javascript:alert(1)",
		"\x01javascript:alert(1)", "&#106;avascript:alert(1)", "&#x6A;avascript:alert(1)", "javascript&colon;alert(1)", "java&Tab;script:alert(1)",
		"java&#13;script:x", "javascript&#58;alert(1)", "&#0000106avascript:alert(1)", "jav&#x09;ascript:alert(1)", "vbscript:msgbox(1)",
		"data:text/html,<script>alert(1)</script>", "data:text/html;base64,PHNjcmlwdD4=", "//evil/x", "http://ok/", "https://ok/?a=1&b=2",
		"mailto:a@b", "#frag", "/rel", "rel.html", "feed:javascript:alert(1)", "javascript:", "JAVASCRIPT&colon;x", "java\x00script:x", "\tjavascript:x")
}

func attrValue(g *vh.Gen, name string) string {
	switch {
	case name == "style":
		if g.Chance(0.15) {
			return randOver(g, cssAlphabet, 12)
		}
		return genCSS(g)
	case strings.HasPrefix(strings.ToLower(name), "on"):
		return g.Pick("alert(1)", "x()", "", "a&quot;b")
	case name == "href" || name == "src" || name == "action" || name == "background" || name == "cite" || name == "formaction" || name == "xlink:href" || name == "poster" || name == "data" || name == "srcset":
		return jsURL(g)
	}
	return g.Pick("x", "a b", "1", "", "a\"b", "a'b", "a>b", "a<b", "a&amp;b", "a&b", "&lt;script&gt;", "a\rb", "a\nb", "é", "\xff", "a=b", "`", "&#34;onclick=x", "x\x00y")
}

var attrNames = []string{"style", "style", "style", "STYLE", "Style", "href", "src", "class", "id", "title", "alt", "onclick", "onerror", "ONLOAD",
	"onmouseover", "on", "onx", "action", "background", "width", "align", "target", "rel", "cite", "name", "type", "value", "formaction", "xlink:href",
	"data-x", "srcset", "poster", "data", "lang", "dir", "\"onclick", "'x", "on\x00click", "style\x00", "sty\tle", "stİle", "ſtyle", "=", "<", "xmlns", "is", "/", "style/"}

func genAttr(g *vh.Gen) string {
	name := g.Pick(attrNames...)
	v := attrValue(g, strings.ToLower(name))
	if !strings.Contains(v, "&#") && !strings.Contains(v, "&") && g.Chance(0.3) {
		v = strings.NewReplacer("\"", "&quot;", "<", "&lt;").Replace(v)
	}
	switch g.Intn(12) {
	case 0:
		return name // no value
	case 1:
		return name + "=" + strings.Fields(v + " x")[0] // unquoted
	case 2, 3:
		return name + "='" + strings.ReplaceAll(v, "'", "&#39;") + "'"
	case 4:
		return name + " = \"" + strings.ReplaceAll(v, "\"", "&quot;") + "\""
	case 5:
		return name + "=\"" + v // unterminated / raw quotes inside
	case 6:
		return name + "=" + v
	default:
		return name + "=\"" + strings.ReplaceAll(v, "\"", "&quot;") + "\""
	}
}

func genText(g *vh.Gen) string {
	return g.Pick("hello", "x", " ", "a &amp; b", "&lt;script&gt;alert(1)&lt;/script&gt;", "&", "&#60;", "&lt", "<", ">", "a<b", "1 < 2 > 0", "\"", "'",
		"é", "\xff", "\x00", "alert(1)", "</", "<!", "<?", "]]>", "&#x3c;script&#x3e;", "\r\n", "javascript:alert(1)", "<script", "</script", "<<", "<a<b")
}

func genNode(g *vh.Gen, depth int, sb *strings.Builder) {
	switch g.Intn(20) {
	case 0:
		sb.WriteString(g.Pick("<!-- c -->", "<!--", "-->", "<!--><script>x</script>-->", "<!-- --!><b>", "<!---->", "<!--<script>-->", "<!-x>", "<!>", "<!DOCTYPE html>",
			"<!doctype", "<![CDATA[<script>x</script>]]>", "<?xml version=\"1.0\"?>", "<?", "</>", "</ x>", "</script>", "</style>", "</p", "</p x=\"y\">", "<>", "< p>", "<%", "<p/>", "<1>"))
		return
	case 1, 2, 3:
		sb.WriteString(genText(g))
		return
	}
	var tag string
	if g.Chance(0.65) {
		tag = g.Pick(okTags...)
	} else {
		tag = g.Pick(badTags...)
	}
	if g.Chance(0.2) {
		tag = flip(g, tag, 0.5)
	}
	if g.Chance(0.02) {
		tag = g.Pick("scr<script>ipt", "s\x00cript", "script\x00", "script/x", "p<", "a\"", "x:script", "style>")
	}
	sb.WriteString("<" + tag)
	na := g.Intn(4)
	if g.Chance(0.2) {
		na = 0
	}
	for i := 0; i < na; i++ {
		sb.WriteString(g.Pick(" ", " ", " ", "\n", "\t", "/", "  ", " / ", ""))
		sb.WriteString(genAttr(g))
	}
	switch g.Intn(14) {
	case 0:
		sb.WriteString("/>")
	case 1:
		sb.WriteString(" />")
	case 2:
		sb.WriteString(g.Pick("", " ", "/", "\"", "'")) // unterminated tag
	default:
		sb.WriteString(">")
	}
	lt := strings.ToLower(tag)
	if lt == "script" || lt == "style" || lt == "textarea" || lt == "title" || lt == "xmp" || lt == "noscript" || lt == "iframe" || lt == "plaintext" || lt == "noembed" {
		sb.WriteString(g.Pick("alert(1)", "<b>x</b>", "body{color:red}", "</b>", "<!--", "<!-- </"+tag+"> -->", "<"+tag+">", "</"+tag, "x</"+strings.ToUpper(tag)+" >y",
			"<img src=x onerror=alert(1)>", "<p style=\"position:fixed\">", "</"+tag+" x", "--></"+tag+">"))
	}
	if depth < 3 {
		k := g.Intn(3)
		for i := 0; i < k; i++ {
			genNode(g, depth+1, sb)
		}
	} else {
		sb.WriteString(genText(g))
	}
	switch g.Intn(10) {
	case 0: // missing close
	case 1:
		sb.WriteString("</" + g.Pick(okTags...) + ">") // wrong close
	case 2:
		sb.WriteString("</" + strings.ToUpper(tag) + " >")
	default:
		sb.WriteString("</" + tag + ">")
	}
}

func genHTML(g *vh.Gen) string {
	var sb strings.Builder
	n := 1 + g.Intn(3)
	for i := 0; i < n; i++ {
		genNode(g, 0, &sb)
	}
	return sb.String()
}

// a single element whose style attribute is the interesting part
func genStyled(g *vh.Gen) string {
	css := genCSS(g)
	q := g.Pick("\"", "\"", "'", "")
	v := css
	switch q {
	case "\"":
		v = strings.ReplaceAll(v, "\"", g.Pick("&quot;", "&#34;", "&#x22;", "'"))
	case "'":
		v = strings.ReplaceAll(v, "'", g.Pick("&#39;", "&apos;", "\""))
	default:
		v = strings.NewReplacer(" ", "&#32;", ">", "&gt;", "\t", "&#9;", "\n", "&#10;", "\r", "&#13;", "\f", "&#12;").Replace(v)
	}
	if g.Chance(0.2) {
		v = strings.ReplaceAll(v, ";", g.Pick("&#59;", "&semi;", "&#x3b;", ";", encRef(g, ';', 2), encRef(g, ';', 3)))
	}
	if g.Chance(0.1) {
		v = strings.ReplaceAll(v, ":", g.Pick("&#58;", "&colon;", "&#x3A;"))
	}
	tag := g.Pick("p", "div", "span", "td", "a", "img", "center", "font", "b")
	extra := g.Pick("", "", " class=\"x\"", " style=\"color:red\"", " STYLE='top:0'", " href=\"http://x/\"", " id=a", " onclick=\"x\"")
	return "<" + tag + extra + " " + g.Pick("style", "style", "STYLE", "Style", "sTyLe") + "=" + q + v + q + g.Pick("", "", " title=\"t\"", " style=\"position:fixed\"") +
		g.Pick(">", ">", "/>", " >") + "x</" + tag + ">"
}

// a linkable element with the URL attribute validURL is applied to, and a URL of some scheme
func genLink(g *vh.Gen) string {
	el, attr := "a", "href"
	switch g.Intn(8) {
	case 0, 1, 2:
	case 3, 4:
		el, attr = "img", "src"
	case 5:
		el, attr = g.Pick("blockquote", "q", "del", "ins"), "cite"
	case 6:
		el, attr = "area", "href"
	default:
		el, attr = g.Pick("a", "img", "td", "div", "video", "source", "link", "base", "form", "input", "iframe", "embed", "object"),
			g.Pick("href", "src", "cite", "background", "action", "formaction", "poster", "data", "srcset", "longdesc", "usemap", "ping", "xlink:href")
	}
	u := jsURL(g)
	if g.Chance(0.5) {
		scheme := g.Pick("data", "DATA", "javascript", "vbscript", "ftp", "file", "about", "blob", "tel", "http", "https", "mailto", "cid", "view-source", "jar", "x", "h+t.p-s", "1http", "", " ", "ht tp")
		rest := g.Pick("text/html;base64,PHNjcmlwdD4=", "text/html,<script>alert(1)</script>", "image/png;base64,AA\nAA", "//example.com/a?b=c&d=e#f", "alert(1)", "//user:pw@host:80/p", "a@b.c", "/", "", "%zz", "[::1]", "//[::1]:8/", "\x00", "a b", "a\tb")
		u = scheme + g.Pick(":", ":", ":", "&colon;", "&#58;", " :", "") + rest
	}
	if g.Chance(0.2) {
		u = g.Pick(" ", "\t", "\n", "\x01", "&#9;", "&Tab;", "\u00a0", "\u2003") + u
	}
	q := g.Pick("\"", "\"", "'", "")
	if q == "" {
		u = strings.NewReplacer(" ", "&#32;", ">", "&gt;", "\t", "&#9;", "\n", "&#10;").Replace(u)
	} else {
		u = strings.ReplaceAll(u, q, "&#34;")
	}
	extra := g.Pick("", "", " rel=\"x\"", " rel=\"nofollow noopener\"", " target=\"_blank\"", " target=_top", " title=\"t\"", " "+attr+"=\"http://second/\"", " crossorigin=x")
	return "<" + el + g.Pick(" ", " ", "\n", "/") + attr + "=" + q + u + q + extra + g.Pick(">", ">", "/>", " >") + "x</" + el + ">"
}

// encRef writes the character c as a character reference (decimal, hex or named; with or
// without the terminating semicolon — then followed by a blank so that it still ends), and
// escapes the ampersand itself depth-1 more times (&amp; / &#38; / &#x26;): depth 1 is a plain
// reference, depth 2 a double-encoded one that survives ONE entity decoding as a reference.
func encRef(g *vh.Gen, c byte, depth int) string {
	named := map[byte][]string{';': {"&semi;"}, ':': {"&colon;"}, '\'': {"&apos;", "&#39;"}, '"': {"&quot;", "&QUOT;", "&quot"}, '<': {"&lt;", "&lt", "&LT;"},
		'>': {"&gt;", "&gt"}, '&': {"&amp;", "&amp", "&AMP;"}, '\t': {"&Tab;"}, '\n': {"&NewLine;"}, '(': {"&lpar;"}, ')': {"&rpar;"}, ' ': {"&#32;"}, '/': {"&sol;"}, '\\': {"&bsol;"}}
	var r string
	switch g.Intn(7) {
	case 0:
		r = "&#" + vh.I(int(c)) + ";"
	case 1:
		r = "&#" + vh.I(int(c)) + " "
	case 2:
		r = "&#x" + strconvHex(c) + ";"
	case 3:
		r = "&#X" + strings.ToUpper(strconvHex(c)) + " "
	case 4:
		r = "&#0000" + vh.I(int(c)) + ";"
	default:
		if ns, ok := named[c]; ok {
			r = ns[g.Intn(len(ns))]
		} else {
			r = "&#" + vh.I(int(c)) + ";"
		}
	}
	for d := 1; d < depth; d++ {
		r = strings.ReplaceAll(r, "&", g.Pick("&amp;", "&amp;", "&#38;", "&#x26;", "&AMP;", "&amp"))
	}
	return r
}

func encDepth(g *vh.Gen) int {
	switch g.Intn(6) {
	case 0:
		return 1
	case 1:
		return 3
	default:
		return 2
	}
}

// genDoubleEnc: attribute values holding multiply encoded character references — in a style
// value the separator after an allow-listed declaration (or the quote closing a CSS string) is
// only a separator after a SECOND entity decoding; likewise the scheme colon of a URL, the
// angle brackets of a title. The decoded value holds no literal quote or angle bracket.
func genDoubleEnc(g *vh.Gen) string {
	tag := g.Pick("p", "div", "span", "td", "a", "img", "center", "b", "table")
	okv := g.Pick("red", "1px", "none", "0", "bold", "10pt solid", "center")
	bad := g.Pick("position:fixed", "z-index:99999", "behavior:url(x.htc)", "top:0;left:0", "-moz-binding:url(x)", "background:url(//e/x)", "float:left", "opacity:0")
	d := encDepth(g)
	var style string
	switch g.Intn(5) {
	case 0, 1, 2:
		style = g.Pick(allowedProps...) + ":" + okv + encRef(g, ';', d) + g.Pick("", " ") + bad + g.Pick("", ";", ";top:0;left:0")
	case 3: // the apostrophe closing a CSS string is a reference
		style = "font-family:'a" + encRef(g, '\'', d) + ";" + bad + ";'"
	default: // colon and separator both encoded
		style = g.Pick(allowedProps...) + ":" + okv + encRef(g, ';', d) + " " + strings.Replace(bad, ":", encRef(g, ':', encDepth(g)), 1)
	}
	attr := g.Pick("style", "style", "style", "STYLE", "Style")
	q := g.Pick("\"", "\"", "'")
	if q == "'" {
		style = strings.ReplaceAll(style, "'", "&#39;")
	}
	var extra string
	switch g.Intn(6) {
	case 0:
		extra = " href=\"java" + encRef(g, 's', encDepth(g)) + "cript" + encRef(g, ':', encDepth(g)) + "alert(1)\""
	case 1:
		extra = " title=\"" + encRef(g, '<', encDepth(g)) + "script" + encRef(g, '>', encDepth(g)) + "\""
	case 2:
		extra = " alt=\"a" + encRef(g, '"', encDepth(g)) + " onerror=" + encRef(g, '"', encDepth(g)) + "x\" src=\"http://x/" + encRef(g, '&', encDepth(g)) + "a=1\""
	case 3:
		extra = " href=\"http://x/?a=1" + encRef(g, '&', encDepth(g)) + "b=2\" title='" + encRef(g, '&', 3) + "'"
	}
	if g.Chance(0.5) {
		return "<" + tag + extra + " " + attr + "=" + q + style + q + ">x</" + tag + ">"
	}
	return "<" + tag + " " + attr + "=" + q + style + q + extra + ">x</" + tag + ">"
}

// genSplice: markup that only becomes a tag when a token between its pieces disappears: a stray
// "<" that opens nothing, then a comment / bogus comment / processing instruction / CDATA / empty
// end tag, then text that reads like the inside of a start tag (with a disallowed style
// declaration, an event handler, a script URL, a forbidden element). Also the same tag-like text
// cut at a random place by such a token. Any pass that drops or rewrites the middle token joins
// the pieces; the final output must still hold no such element.
func genSplice(g *vh.Gen) string {
	mid := g.Pick("<!-- -->", "<!---->", "<!--x-->", "<!--[if mso]>x<![endif]-->", "<?xml version=\"1.0\"?>", "<?>", "<!>", "<!x>", "<![CDATA[x]]>",
		"<!DOCTYPE html>", "</>", "</ >", "<!-->", "<!--->", "<!-- --!>", "<!--<-->", "<!-- > -->")
	inner := g.Pick(
		"div style=\"position:fixed;top:0\">x</div>",
		"p style='position:fixed;left:0;z-index:9'>x</p>",
		"span STYLE=behavior:url(x)>x</span>",
		"td style=\""+g.Pick(badProps...)+":"+g.Pick("0", "fixed", "url(x)")+"\">x</td>",
		"img src=x onerror=alert(1)>",
		"a href=\"javascript:alert(1)\">x</a>",
		"script>alert(1)</script>",
		"iframe src=//evil/></iframe>",
		"b onclick=x style=\"top:0\">x</b>",
		"center style=\"color:red;position:fixed\">x</center>")
	opener := g.Pick("<", "<", "<<", "x<", "< <", "&lt;<", "<\x00<", "1 < 2 <")
	switch g.Intn(5) {
	case 0, 1, 2:
		return g.Pick("", "a ", "<p>") + opener + mid + inner
	case 3: // the token cuts the tag-like text somewhere
		t := "<" + inner
		i := 1 + g.Intn(len(t)-1)
		return t[:i] + mid + t[i:]
	default: // two tokens in a row, or the token after the name
		return opener + mid + g.Pick("", mid, " ") + inner + g.Pick("", mid+"<p style=\"top:0\">y</p>")
	}
}

// genBackground: URL-valued attributes other than href/src/cite (background, poster, action,
// formaction, longdesc, ping, data, srcset, xlink:href, manifest, codebase, lowsrc, dynsrc, icon,
// usemap) on table elements and others, with script-scheme values that ALSO hold an innocent
// looking reference (cid:, http://, https://) somewhere, the way an unanchored alternation in a
// value pattern would be satisfied.
func genBackground(g *vh.Gen) string {
	el := g.Pick("td", "td", "table", "tr", "th", "tbody", "div", "body", "img", "video", "a", "form", "input", "object")
	attr := g.Pick("background", "background", "background", "BACKGROUND", "poster", "action", "formaction", "longdesc", "ping", "data", "srcset",
		"xlink:href", "manifest", "codebase", "lowsrc", "dynsrc", "icon", "usemap", "cite", "src", "href")
	js := g.Pick("javascript:alert(1)", "JavaScript:alert(1)", "java\tscript:alert(1)", " javascript:alert(1)", "&#106;avascript:alert(1)", "vbscript:msgbox(1)",
		"javascript&colon;alert(1)", "data:text/html,<script>alert(1)</script>")
	tail := g.Pick("//cid:x", "//CID:logo", ";'cid:'", "/*cid:*/", "//http://x/", "//https://ok.example/a.png", "#cid:1", "?cid:", "", "//cid:x\nhttp://y/")
	v := js + tail
	if g.Chance(0.15) {
		v = g.Pick("cid:logo", "http://ok/a.png", "https://ok/a.png", "HTTP://OK/", "cid:", "//evil/x", "ftp://cid:x") // harmless or other shapes
	}
	q := g.Pick("\"", "\"", "'")
	v = strings.ReplaceAll(v, q, "&#34;")
	extra := g.Pick("", "", " width=\"10\"", " style=\"color:red\"", " "+attr+"=\"http://second/\"")
	return g.Pick("", "<table>", "<table><tr>") + "<" + el + extra + " " + attr + "=" + q + v + q + g.Pick(">", ">", "/>") + "x</" + el + ">"
}

// genNFC: code points a Unicode normalisation (NFC) of the OUTPUT would turn into syntax: the
// Greek question mark U+037E (canonically the semicolon), U+1FEF (the grave accent / backtick),
// the Kelvin sign U+212A (K), and the combining long solidus overlay U+0338 / other combining
// marks right after a greater-than, less-than, equals sign or quote (greater-than + U+0338
// composes to U+226F: the tag no longer ends there and the text after it is read as attributes).
func genNFC(g *vh.Gen) string {
	comb := g.Pick("\u0338", "\u0338", "\u0338", "\u0301", "\u20d2", "\u0307", "\u0338\u0338")
	gq := g.Pick("\u037e", "\u037e", "&#x37e;", "&#894;", "\u037e ", "\u1fef", "\u212a")
	tag := g.Pick("p", "div", "span", "td", "b", "center")
	bad := g.Pick("position:fixed", "z-index:9", "behavior:url(x)", "top:0", "background:url(//e/x)")
	switch g.Intn(6) {
	case 0, 1: // separator inside a style value
		return "<" + tag + " style=\"" + g.Pick(allowedProps...) + ":" + g.Pick("red", "1px", "none") + gq + bad + g.Pick("", ";", gq+"left:0") + "\">x</" + tag + ">"
	case 2: // text directly after a start tag begins with a combining mark and reads like attributes
		return "<" + tag + g.Pick("", " title=\"t\"", " class=\"c\"") + ">" + comb + g.Pick(" onclick=alert(1) ", " onmouseover=\"alert(1)\" ", " style=\"position:fixed\" ", " href=javascript:alert(1) ") +
			g.Pick("x=\"", "", "y") + g.Pick(">z", "", "<b>z</b>") + "</" + tag + ">"
	case 3: // after other syntax bytes
		return "<" + tag + " title=\"a\"" + comb + " style=" + comb + "\"color:red\"><" + comb + "script>alert(1)</script>=" + comb + "</" + tag + ">" + comb
	case 4: // inside attribute values and URLs
		return "<a href=\"http://x/" + gq + "\" title=\"" + gq + comb + "\">" + gq + "</a><img alt=\"a\"" + comb + " src=\"http://x/" + comb + "\">"
	default: // decomposed ordinary text (must stay fine) around tags
		return "<" + tag + ">e\u0301 a\u030a</" + tag + ">" + comb + "<" + tag + " style=\"color:red\">n\u0303>" + comb + "</" + tag + ">"
	}
}

// genLong builds a document holding ONE very long token of about n bytes (kind selects which
// token kind). Total size never mattered to the sanitiser; a single huge token exercises the
// tokenizer's buffering (sanitising must never fail: C18's last clause). nl > 0 inserts a line
// break every nl bytes (mail bodies), which does not end any of these tokens.
func genLong(g *vh.Gen, kind, n, nl int) string {
	fill := func(unit string, n int) string {
		var sb strings.Builder
		for sb.Len() < n {
			sb.WriteString(unit)
			if nl > 0 && sb.Len()%nl < len(unit) {
				sb.WriteString("\n")
			}
		}
		return sb.String()[:n]
	}
	switch kind % 10 {
	case 0: // text run
		return "<p>" + fill("lorem ipsum ", n) + "</p>"
	case 1: // inline image in an attribute
		return "<p>x</p><img alt=\"i\" src=\"data:image/png;base64," + fill("iVBORw0KGgoAAAANSUhEUgAA", n) + "\"><p>y</p>"
	case 2: // raw text of a style element
		return "<style>" + fill("p{color:red}", n) + "</style><p>x</p>"
	case 3: // comment
		return "<p>x</p><!--" + fill("c ", n) + "--><p>y</p>"
	case 4: // unterminated tag running to the end of the input
		return "<p>x</p><p title=\"" + fill("t", n)
	case 5: // long style attribute, many declarations
		return "<div style=\"" + fill("color:red;position:fixed;WIDTH:1px;", n) + "\">x</div>"
	case 6: // start tag with very many attributes
		return "<td " + fill("width=\"1\" onclick=\"x\" ", n) + ">x</td>"
	case 7: // raw text of textarea / title / script
		el := g.Pick("textarea", "title", "script", "xmp", "noscript")
		return "<" + el + ">" + fill("<b>x</b> ", n) + "</" + el + "><p>y</p>"
	case 8: // text with entities and markup characters only
		return fill("&amp;&lt;&#60;&quot;> ", n)
	default: // end tag with junk, doctype, CDATA
		return g.Pick("</p "+fill("a ", n)+">", "<!DOCTYPE "+fill("x", n)+">", "<![CDATA["+fill("x", n)+"]]>", "<?"+fill("x", n)+">") + "<p>y</p>"
	}
}

// sizes around the 64 KiB mark of a single token, plus a few much larger ones
func longSize(g *vh.Gen, i int) int {
	switch i % 4 {
	case 0:
		return 65536 - 12 + g.Intn(24)
	case 1:
		return 65536 + g.Intn(64)
	case 2:
		return 32768 - 8 + g.Intn(16)
	default:
		return 150000 + g.Intn(250000)
	}
}

var htmlAlphabet = []string{"<", ">", "<", ">", "/", "=", "\"", "'", " ", "script", "style", "p", "a", "on", "click", "href", "javascript:", "&", ";", "#", "x", "!--", "--",
	"\x00", "\n", "img", "src", "svg", "iframe", "form", "&lt;", "&#60", "alert(1)", "?", "[CDATA[", "]]", "textarea", "title", "color:red", "top:0", "\xff", "`"}

// ------------------------------------------------------------------------ text

func genURL(g *vh.Gen) string {
	return g.Pick("http://example.com/", "https://a.b/c?d=e&f=g", "www.example.com", "www1.x.org/path", "example.com/x", "ftp://h/p", "mailto:a@b.c",
		"javascript:alert(1)", "JavaScript:alert(document.cookie)", "javascript://%0aalert(1)", "data:text/html,<b>", "data:text/html;base64,AAAA", "vbscript:x",
		"http://a/(b)", "http://a/(b(c))", "http://a/b).", "http://a/\"onmouseover=\"alert(1)", "http://a/'x'", "http://a/<b>", "http://a/?q=<script>", "http://a/&amp;",
		"http://a/&quot;", "http://a/x&", "http://a/x;", "x:y", "a:b", "ab:c", "abc:/", "http:/a", "http:///a", "h-t_p:x", "tel:123", "http://é.fr/ü", "http://a/\xff",
		"http://a/«", "http://a/b”", "(http://a/b)", "<http://a/b>", "[http://a/b]", "\"http://a/b\"", "http://a/b,", "http://a/b...", "http://a/`x`", "a.bc/", "a.bcdef/",
		"1.2.3.4/x", "x.museum/", "foo@bar.com", "-a.bc/", "http://a/b\rc", "http://a/b\tc", "http://a/b'onclick='x", "jAvAsCrIpT:x", "javascript:alert`1`", "javascript:a(1)(2)",
		"javascript:alert(1);", "javascript:alert(&quot;x&quot;)", "javascript:alert('x')", "javascript:alert(\"x\")", "xjavascript:a", "_javascript:a", "http://a/&amp;amp;", "http://a/&#34;")
}

func genPlain(g *vh.Gen) string {
	var sb strings.Builder
	n := g.Intn(8)
	for i := 0; i < n; i++ {
		switch g.Intn(12) {
		case 0, 1, 2:
			sb.WriteString(genURL(g))
		case 3:
			sb.WriteString(g.Pick("\r\n", "\n", "\r", "\n\r", "\r\r\n", "\r\n\n", "\n\n"))
		case 4:
			sb.WriteString(g.Pick("<", ">", "&", "\"", "'", "<br/>", "</a>", "<a href=\"x\" target=\"_blank\">", "<script>alert(1)</script>", "&lt;", "&amp;", "&#34;", "&", "&&", "&;", "&amp"))
		case 5:
			sb.WriteString(g.Pick(" ", " ", "\t", "  ", "\v", "\f", " ", " ", "\x85"))
		case 6:
			sb.WriteString(g.Pick("é", "«", "»", "“", "”", "‘", "’", "\xff", "\xc3", "\x00", "K"))
		case 7:
			sb.WriteString(g.Pick("(", ")", "[", "]", "{", "}", ";", ":", ",", ".", "!", "?", "`"))
		default:
			sb.WriteString(g.Pick("hello", "world", "see", "x", "Dear", "user", "click", "a", "1"))
			sb.WriteString(g.Pick(" ", " ", " ", "", "\n"))
		}
	}
	return sb.String()
}

var textAlphabet = []string{"http://", "www.", "a", "b", ".", "/", ":", "<", ">", "&", "\"", "'", "\r", "\n", " ", "(", ")", "javascript:", ";", "amp;", "&amp;", "x", "com", "\xff", "«"}

func gen(g *vh.Gen) {
	for i := 0; i < g.N(3000, 200000); i++ {
		var s string
		switch {
		case i%10 == 9:
			s = randOver(g, cssAlphabet, 14)
		case i%10 == 8:
			s = mutate(g, genCSS(g), ";:\"'/*\\(){}\n ")
		default:
			s = genCSS(g)
		}
		g.Emit("css", vh.HS(s))
	}
	for i := 0; i < g.N(3000, 200000); i++ {
		var s string
		switch {
		case i%10 == 9:
			s = randOver(g, htmlAlphabet, 24)
		case i%10 >= 7:
			s = mutate(g, genHTML(g), "<>\"'=/ &;\x00")
		case i%10 >= 6:
			s = genStyled(g)
		case i%10 == 5 && (i/10)%4 == 0:
			s = genSplice(g)
		case i%10 == 5 && (i/10)%4 == 1:
			s = genBackground(g)
		case i%10 == 5 && (i/10)%4 == 2:
			s = genNFC(g)
		case i%10 == 5:
			s = genDoubleEnc(g)
		case i%10 >= 3:
			s = genLink(g)
		default:
			s = genHTML(g)
		}
		g.Emit("html", vh.HS(s))
	}
	for i := 0; i < g.N(3000, 200000); i++ {
		var s string
		switch {
		case i%10 == 9:
			s = randOver(g, textAlphabet, 16)
		case i%10 == 8:
			s = mutate(g, genPlain(g), "<>&\"'\r\n :/.()")
		default:
			s = genPlain(g)
		}
		g.Emit("text", vh.HS(s))
	}
	// one very long token per document: every token kind, sizes around 64 KiB and a few larger
	for i := 0; i < g.N(12, 60); i++ {
		g.Emit("html", vh.HS(genLong(g, i, longSize(g, i+i/10), 0)))
	}
	for i := 0; i < g.N(4, 16); i++ {
		k := []int{0, 1, 5, 3, 7, 8, 2, 6, 4, 9}[i%10]
		g.Emit("msg", vh.HS(validUTF8(genLong(g, k, longSize(g, i), 76))), vh.HS(validUTF8(genLong(g, 8, longSize(g, i+1), 76))))
	}
	for i := 0; i < g.N(1000, 50000); i++ {
		var h string
		switch i % 5 {
		case 0, 1:
			h = genHTML(g)
		case 2:
			h = genDoubleEnc(g)
		case 3:
			switch (i / 5) % 3 {
			case 0:
				h = genSplice(g)
			case 1:
				h = genBackground(g)
			default:
				h = genNFC(g)
			}
		default:
			h = genStyled(g)
		}
		g.Emit("msg", vh.HS(validUTF8(h)), vh.HS(validUTF8(genPlain(g))))
	}
}

package main

// Token-level observation for the bluemonday policy model (coq/Model/SanitizePolicy.v): the
// tokens x/net/html produces for the document the policy is applied to, with, per attribute, the
// third-party results the model takes as inputs: which of the policy's value patterns match
// (regexp), and for href/cite/src the outcome of validURL's parsing part (net/url).

import (
	"net/url"
	"regexp"
	"strings"
	"sync"

	"github.com/inbucket/inbucket/v3/pkg/webui/sanitize"
	"golang.org/x/net/html"
	"verifharness/c18policy"
	"verifharness/vh"
)

var (
	patOnce  sync.Once
	patterns []*regexp.Regexp
)

func policyPatterns() []*regexp.Regexp {
	patOnce.Do(func() {
		d, err := c18policy.Read(sanitize.VerifPolicy())
		if err != nil {
			panic(err)
		}
		for _, p := range d.Patterns {
			patterns = append(patterns, regexp.MustCompile(p))
		}
	})
	return patterns
}

func bitmap(v string) string {
	ps := policyPatterns()
	b := make([]byte, len(ps))
	for i, p := range ps {
		if p.MatchString(v) {
			b[i] = '1'
		} else {
			b[i] = '0'
		}
	}
	if len(b) == 0 {
		return "-"
	}
	return string(b)
}

var dataURIbase64Prefix = regexp.MustCompile(`^data:[^,]*;base64,`)

// urlInfo is the third-party part of bluemonday's validURL (white-space preprocessing as it does
// it, then net/url.Parse): ok:scheme:string:host
func urlInfo(raw string) string {
	s := strings.TrimSpace(raw)
	ok := true
	if strings.Contains(s, " ") || strings.Contains(s, "\t") || strings.Contains(s, "\n") {
		if !strings.HasPrefix(s, `data:`) {
			ok = false
		} else if m := dataURIbase64Prefix.FindString(s); m != "" {
			s = m + strings.Replace(strings.Replace(s[len(m):], "\r", "", -1), "\n", "", -1)
		}
	}
	scheme, str := "", ""
	if ok {
		u, err := url.Parse(s)
		if err != nil {
			ok = false
		} else {
			scheme, str = u.Scheme, u.String()
		}
	}
	hostOf := raw
	if ok {
		hostOf = str
	}
	host := false
	if u, err := url.Parse(hostOf); err == nil && u.Host != "" {
		host = true
	}
	return vh.B(ok) + ":" + vh.HS(scheme) + ":" + vh.HS(str) + ":" + vh.B(host)
}

// policyTokens: x.<data> text, c comment, d doctype, s|e|z.<name>[.<key>~<val>~<bitmap>~<urlinfo>]*
func policyTokens(doc string) string {
	z := html.NewTokenizer(strings.NewReader(doc))
	var out []string
	for {
		if z.Next() == html.ErrorToken {
			return join(out, "|")
		}
		t := z.Token()
		switch t.Type {
		case html.TextToken:
			out = append(out, "x."+vh.HS(t.Data))
		case html.CommentToken:
			out = append(out, "c")
		case html.DoctypeToken:
			out = append(out, "d")
		case html.StartTagToken, html.EndTagToken, html.SelfClosingTagToken:
			k := map[html.TokenType]string{html.StartTagToken: "s", html.EndTagToken: "e", html.SelfClosingTagToken: "z"}[t.Type]
			it := k + "." + vh.HS(t.Data)
			for _, a := range t.Attr {
				bm, ui := "-", "-"
				if t.Type != html.EndTagToken {
					bm = bitmap(a.Val)
					if a.Key == "href" || a.Key == "cite" || a.Key == "src" {
						ui = urlInfo(a.Val)
					}
				}
				it += "." + vh.HS(a.Key) + "~" + vh.HS(a.Val) + "~" + bm + "~" + ui
			}
			out = append(out, it)
		}
	}
}

// finalTags lists every start / self-closing tag of the final output with its attributes, for
// the runner to judge with the extracted spec (tag_inert): <name>[.<key>~<val>]*
func finalTags(final string) string {
	z := html.NewTokenizer(strings.NewReader(final))
	var out []string
	for {
		if z.Next() == html.ErrorToken {
			return join(out, "|")
		}
		t := z.Token()
		if t.Type != html.StartTagToken && t.Type != html.SelfClosingTagToken {
			continue
		}
		it := vh.HS(t.Data)
		for _, a := range t.Attr {
			it += "." + vh.HS(a.Key) + "~" + vh.HS(a.Val)
		}
		out = append(out, it)
	}
}

// rawTags lists every start / self-closing tag of doc as the tokenizer reports it, together with
// the raw bytes of the token (taken BEFORE TagName lower-cases the name in place), for the
// comparison with the tag-scanning model (coq/Model/SanitizeTag.v):
// <raw>.<name>.<selfclosing>[.<key>~<val>]*
func rawTags(doc string) string {
	z := html.NewTokenizer(strings.NewReader(doc))
	var out []string
	for {
		tt := z.Next()
		if tt == html.ErrorToken {
			return join(out, "|")
		}
		if tt != html.StartTagToken && tt != html.SelfClosingTagToken {
			continue
		}
		raw := append([]byte(nil), z.Raw()...)
		name, more := z.TagName()
		it := vh.H(raw) + "." + vh.H(name) + "." + vh.B(tt == html.SelfClosingTagToken)
		for more {
			var k, v []byte
			k, v, more = z.TagAttr()
			it += "." + vh.H(k) + "~" + vh.H(v)
		}
		out = append(out, it)
	}
}

// Driver for C18 (sanitised HTML / text cannot carry active content).
//
//	css  <style>  => <sanitizeStyle(style)> <tokens of style> <tokens of the result>
//	html <doc>    => <sanitizeStyleTags(doc)|ERR> <tokenizer items of doc> <sanitize.HTML(doc)|ERR> <report>
//	                 <policy tokens of the rewritten doc (policy.go)> <start tags of the final output>
//	text <text>   => <web.TextToHTML(text)> <URL match intervals in the escaped text>
//	msg  <html> <text> => see msg.go (through enmime and the real webui.MailboxMessage handler)
//
// The third-party parsers are run here and their results handed to the model as inputs:
// the gorilla/css scanner's token list (type:value,...), the x/net/html tokenizer's items
// (raw stretches and start tags with attributes), the regexp's match intervals. The model
// (coq/Model/Sanitize.v) then computes what inbucket's own logic makes of them; the
// comparer checks it against the first observation field.
//
// <report> is the result of re-parsing the FINAL output of sanitize.HTML with x/net/html:
// forbidden elements (E:name), event-handler attributes (A:name), script URLs (J:attr:value),
// and the first significant token of every declaration of every style attribute
// (S:type:value; X = the scanner reports an error). The runner's oracle judges it.
package main

import (
	"bytes"
	"io"
	"strconv"
	"strings"

	"github.com/gorilla/css/scanner"
	"github.com/inbucket/inbucket/v3/pkg/server/web"
	"github.com/inbucket/inbucket/v3/pkg/webui/sanitize"
	"golang.org/x/net/html"
	"golang.org/x/net/html/atom"
	stdhtml "html"
	"verifharness/vh"
)

// ---------------------------------------------------------------- observation

func scanTokens(s string) []string {
	sc := scanner.New(s)
	var out []string
	for i := 0; i < 1<<20; i++ {
		t := sc.Next()
		out = append(out, strconv.Itoa(int(t.Type))+":"+vh.HS(t.Value))
		if t.Type == scanner.TokenEOF || t.Type == scanner.TokenError {
			break
		}
	}
	return out
}

func join(xs []string, sep string) string {
	if len(xs) == 0 {
		return "-"
	}
	return strings.Join(xs, sep)
}

// items runs the tokenizer exactly as styleTagFilter does and records what it sees.
func items(doc string) (string, bool) {
	z := html.NewTokenizer(strings.NewReader(doc))
	var out []string
	for {
		tt := z.Next()
		switch tt {
		case html.ErrorToken:
			return join(out, "|"), z.Err() == io.EOF
		case html.StartTagToken, html.SelfClosingTagToken:
			name, hasAttr := z.TagName()
			if !hasAttr {
				// as in styleTagFilter: Raw() AFTER TagName(), which lower-cases the name in place
				out = append(out, "r."+vh.H(z.Raw()))
				continue
			}
			it := "t." + vh.H(name) + "." + vh.B(tt == html.SelfClosingTagToken)
			for {
				key, val, more := z.TagAttr()
				toks := "-"
				if strings.ToLower(string(key)) == "style" {
					toks = join(scanTokens(string(val)), ",")
				}
				it += "." + vh.H(key) + "~" + vh.H(val) + "~" + toks
				if !more {
					break
				}
			}
			out = append(out, it)
		default:
			out = append(out, "r."+vh.H(z.Raw()))
		}
	}
}

var forbidden = map[string]bool{
	"script": true, "style": true, "iframe": true, "frame": true, "frameset": true,
	"object": true, "embed": true, "applet": true, "form": true,
	"input": true, "button": true, "textarea": true, "select": true,
}

func scriptURL(v string) bool {
	var b []byte
	for i := 0; i < len(v); i++ {
		c := v[i]
		if c == '\t' || c == '\n' || c == '\r' {
			continue
		}
		if len(b) == 0 && c <= 0x20 {
			continue
		}
		if 'A' <= c && c <= 'Z' {
			c += 32
		}
		b = append(b, c)
	}
	return bytes.HasPrefix(b, []byte("javascript:")) || bytes.HasPrefix(b, []byte("vbscript:"))
}

// declHeads re-scans a style attribute value and returns the first significant token of
// every declaration.
func declHeads(v string) []string {
	sc := scanner.New(v)
	var out []string
	atStart := true
	for i := 0; i < 1<<20; i++ {
		t := sc.Next()
		if t.Type == scanner.TokenEOF {
			break
		}
		if t.Type == scanner.TokenError {
			out = append(out, "X")
			break
		}
		semi := t.Type == scanner.TokenChar && t.Value == ";"
		if atStart {
			if t.Type == scanner.TokenS || t.Type == scanner.TokenComment || semi {
				continue
			}
			out = append(out, "S:"+strconv.Itoa(int(t.Type))+":"+vh.HS(t.Value))
			atStart = false
			continue
		}
		if semi {
			atStart = true
		}
	}
	return out
}

// treeReport parses the final output as a browser would build the tree (fragment in a body
// context) and reports the same kinds of findings on the element nodes.
func treeReport(final string) []string {
	ctx := &html.Node{Type: html.ElementNode, Data: "body", DataAtom: atom.Body}
	nodes, err := html.ParseFragment(strings.NewReader(final), ctx)
	if err != nil {
		return []string{"X"}
	}
	var out []string
	var walk func(n *html.Node)
	walk = func(n *html.Node) {
		if n.Type == html.ElementNode {
			name := strings.ToLower(n.Data)
			if forbidden[name] {
				out = append(out, "E:"+vh.HS(name))
			}
			for _, a := range n.Attr {
				k := strings.ToLower(a.Key)
				if strings.HasPrefix(k, "on") {
					out = append(out, "A:"+vh.HS(k))
				}
				if scriptURL(a.Val) {
					out = append(out, "J:"+vh.HS(k)+":"+vh.HS(a.Val))
				}
				if k == "style" {
					out = append(out, declHeads(a.Val)...)
				}
			}
		}
		for c := n.FirstChild; c != nil; c = c.NextSibling {
			walk(c)
		}
	}
	for _, n := range nodes {
		walk(n)
	}
	return out
}

func report(final string) string {
	z := html.NewTokenizer(strings.NewReader(final))
	out := treeReport(final)
	for {
		tt := z.Next()
		if tt == html.ErrorToken {
			return join(out, ",")
		}
		if tt != html.StartTagToken && tt != html.SelfClosingTagToken && tt != html.EndTagToken {
			continue
		}
		name, hasAttr := z.TagName()
		if forbidden[string(name)] {
			out = append(out, "E:"+vh.H(name))
		}
		if tt == html.EndTagToken {
			continue
		}
		for hasAttr {
			key, val, more := z.TagAttr()
			k := string(key)
			if strings.HasPrefix(k, "on") {
				out = append(out, "A:"+vh.H(key))
			}
			if scriptURL(string(val)) {
				out = append(out, "J:"+vh.H(key)+":"+vh.H(val))
			}
			if k == "style" {
				out = append(out, declHeads(string(val))...)
			}
			hasAttr = more
		}
	}
}

func intervals(text string) string {
	e := stdhtml.EscapeString(text)
	var out []string
	for _, m := range web.VerifURLMatches(e) {
		out = append(out, strconv.Itoa(m[0])+"-"+strconv.Itoa(m[1]))
	}
	return join(out, ",")
}

func exec(kind string, in []string) []string {
	switch kind {
	case "css":
		s := vh.US(in[0])
		out := sanitize.VerifSanitizeStyle(s)
		return []string{vh.HS(out), join(scanTokens(s), ","), join(scanTokens(out), ",")}
	case "html":
		s := vh.US(in[0])
		filtered, ferr := sanitize.VerifStyleTags(s)
		f0 := "S" + vh.HS(filtered)
		if ferr != nil {
			f0 = "ERR"
		}
		its, _ := items(s)
		final, err := sanitize.HTML(s)
		f2, rep := "S"+vh.HS(final), "-"
		if err != nil {
			f2 = "ERR"
		} else {
			rep = report(final)
		}
		toks2, tags := "-", "-"
		if ferr == nil {
			toks2 = policyTokens(filtered)
		}
		if err == nil {
			tags = finalTags(final)
		}
		// tags of the document and of the rewritten document, for the tag-scanning model
		rt := rawTags(s)
		if ferr == nil {
			if r2 := rawTags(filtered); r2 != "-" {
				if rt == "-" {
					rt = r2
				} else {
					rt += "|" + r2
				}
			}
		}
		return []string{f0, its, f2, rep, toks2, tags, "T1", rt}
	case "msg":
		return execMsg(in)
	case "text":
		s := vh.US(in[0])
		return []string{"S" + vh.HS(web.TextToHTML(s)), intervals(s)}
	}
	return []string{"UNKNOWN-KIND"}
}

func main() { vh.Main(gen, exec) }

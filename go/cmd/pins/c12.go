package main

func init() {
	fpRegister("pkg/storage/retention.go", "RetentionScanner.Start", "RetentionScanner.DoScan", "RetentionScanner.Join", "NewRetentionScanner")
	fpRegister("pkg/storage/mem/store.go", "Store.VisitMailboxes")
	fpRegister("pkg/storage/file/fstore.go", "Store.VisitMailboxes")
}

package main

import (
	"bytes"
	"fmt"
	"go/ast"
	"go/printer"
	"go/token"
	"strings"
)

func init() {
	fpRegister("pkg/storage/retention.go", "RetentionScanner.Start", "RetentionScanner.DoScan", "RetentionScanner.Join", "NewRetentionScanner")
	fpRegister("pkg/storage/mem/store.go", "Store.VisitMailboxes")
	fpRegister("pkg/storage/file/fstore.go", "Store.VisitMailboxes")
}

// ---- structure of RetentionScanner.Start and DoScan (translator): the statement skeleton of both functions
// (logging and metrics stripped), and the features the model is written from — the disabled-guard, the minute,
// the arms of the three selects, the cutoff expression and the removal test.

func init() { register("RetentionShape.v", genRetentionShape) }

func isLogOrMetric(fset *token.FileSet, e ast.Expr) bool {
	t := exprText(fset, e)
	return strings.HasPrefix(t, "slog.") || strings.HasPrefix(t, "log.") || strings.HasPrefix(t, "exp") ||
		strings.HasPrefix(t, "scanCompletedMillis.")
}

// skeleton prints one line per statement; function literals passed to calls are expanded.
func skeleton(fset *token.FileSet, stmts []ast.Stmt, out *[]string) {
	for _, s := range stmts {
		switch x := s.(type) {
		case *ast.ExprStmt:
			if isLogOrMetric(fset, x.X) {
				continue
			}
			skelExpr(fset, exprText(fset, x.X), x.X, out)
		case *ast.AssignStmt:
			t := exprText(fset, x.Lhs[0])
			for _, l := range x.Lhs[1:] {
				t += ", " + exprText(fset, l)
			}
			t += " " + x.Tok.String() + " "
			var lit *ast.FuncLit
			for i, r := range x.Rhs {
				if i > 0 {
					t += ", "
				}
				if c, ok := r.(*ast.CallExpr); ok {
					if f := funcLitArg(c); f != nil {
						lit = f
						t += exprText(fset, c.Fun) + "(func)"
						continue
					}
				}
				t += exprText(fset, r)
			}
			if lit != nil {
				*out = append(*out, t+" {")
				skeleton(fset, lit.Body.List, out)
				*out = append(*out, "}")
			} else if strings.HasPrefix(t, "slog ") || strings.HasPrefix(t, "retained ") || strings.HasPrefix(t, "storeSize ") {
				continue
			} else {
				*out = append(*out, t)
			}
		case *ast.IncDecStmt:
			continue // counters of the metrics
		case *ast.IfStmt:
			h := "if "
			if x.Init != nil {
				var tmp []string
				skeleton(fset, []ast.Stmt{x.Init}, &tmp)
				h += strings.Join(tmp, " ") + "; "
			}
			*out = append(*out, h+exprText(fset, x.Cond)+" {")
			skeleton(fset, x.Body.List, out)
			if x.Else != nil {
				*out = append(*out, "} else {")
				if b, ok := x.Else.(*ast.BlockStmt); ok {
					skeleton(fset, b.List, out)
				} else {
					skeleton(fset, []ast.Stmt{x.Else}, out)
				}
			}
			*out = append(*out, "}")
		case *ast.ForStmt:
			*out = append(*out, "for {")
			skeleton(fset, x.Body.List, out)
			*out = append(*out, "}")
		case *ast.RangeStmt:
			*out = append(*out, "for range "+exprText(fset, x.X)+" {")
			skeleton(fset, x.Body.List, out)
			*out = append(*out, "}")
		case *ast.LabeledStmt:
			*out = append(*out, x.Label.Name+":")
			skeleton(fset, []ast.Stmt{x.Stmt}, out)
		case *ast.SelectStmt:
			*out = append(*out, "select {")
			for _, c := range x.Body.List {
				cc := c.(*ast.CommClause)
				if cc.Comm == nil {
					*out = append(*out, "default:")
				} else {
					var tmp []string
					skeleton(fset, []ast.Stmt{cc.Comm}, &tmp)
					*out = append(*out, "case "+strings.Join(tmp, " ")+":")
				}
				skeleton(fset, cc.Body, out)
			}
			*out = append(*out, "}")
		case *ast.ReturnStmt:
			t := "return"
			for i, r := range x.Results {
				if i == 0 {
					t += " "
				} else {
					t += ", "
				}
				t += exprText(fset, r)
			}
			*out = append(*out, t)
		case *ast.BranchStmt:
			t := x.Tok.String()
			if x.Label != nil {
				t += " " + x.Label.Name
			}
			*out = append(*out, t)
		case *ast.DeferStmt:
			if f, ok := x.Call.Fun.(*ast.FuncLit); ok {
				*out = append(*out, "defer func {")
				skeleton(fset, f.Body.List, out)
				*out = append(*out, "}")
			} else {
				*out = append(*out, "defer "+exprText(fset, x.Call))
			}
		case *ast.BlockStmt:
			skeleton(fset, x.List, out)
		default:
			*out = append(*out, "stmt "+exprText2(fset, s))
		}
	}
}

func exprText2(fset *token.FileSet, n ast.Node) string {
	var b bytes.Buffer
	printer.Fprint(&b, fset, n)
	return strings.Join(strings.Fields(b.String()), " ")
}

func funcLitArg(c *ast.CallExpr) *ast.FuncLit {
	for _, a := range c.Args {
		if f, ok := a.(*ast.FuncLit); ok {
			return f
		}
	}
	return nil
}

func skelExpr(fset *token.FileSet, text string, e ast.Expr, out *[]string) {
	if c, ok := e.(*ast.CallExpr); ok {
		if f := funcLitArg(c); f != nil {
			*out = append(*out, exprText(fset, c.Fun)+"(func) {")
			skeleton(fset, f.Body.List, out)
			*out = append(*out, "}")
			return
		}
	}
	*out = append(*out, strings.Join(strings.Fields(text), " "))
}

func genRetentionShape(repo string) (string, error) {
	fset, f, err := parseFile(repo, "pkg/storage/retention.go")
	if err != nil {
		return "", err
	}
	start := findFunc(f, "RetentionScanner.Start")
	scan := findFunc(f, "RetentionScanner.DoScan")
	join := findFunc(f, "RetentionScanner.Join")
	if start == nil || scan == nil || join == nil {
		return "", fmt.Errorf("retention.go: Start / DoScan / Join not found")
	}
	var ss, ds, js []string
	skeleton(fset, start.Body.List, &ss)
	skeleton(fset, scan.Body.List, &ds)
	skeleton(fset, join.Body.List, &js)
	// features
	var guardOp, guardRHS string
	if len(start.Body.List) > 0 {
		for _, s := range start.Body.List {
			if is, ok := s.(*ast.IfStmt); ok {
				if be, ok := is.Cond.(*ast.BinaryExpr); ok && strings.Contains(exprText(fset, be.X), "retentionPeriod") {
					guardOp, guardRHS = be.Op.String(), exprText(fset, be.Y)
				}
				break
			}
		}
	}
	if guardOp == "" {
		return "", fmt.Errorf("Start: no guard on retentionPeriod as the first if statement")
	}
	var waitOp, waitRHS string
	ast.Inspect(start, func(n ast.Node) bool {
		if is, ok := n.(*ast.IfStmt); ok {
			if be, ok := is.Cond.(*ast.BinaryExpr); ok && exprText(fset, be.X) == "since" {
				waitOp, waitRHS = be.Op.String(), exprText(fset, be.Y)
			}
		}
		return true
	})
	if waitOp == "" {
		return "", fmt.Errorf("Start: no test of `since`")
	}
	minute := map[string]int{"time.Minute": 60, "time.Second": 1, "time.Hour": 3600}
	secs, ok := minute[waitRHS]
	if !ok {
		return "", fmt.Errorf("Start: `since` is compared with %s, not with a time unit constant", waitRHS)
	}
	var b strings.Builder
	b.WriteString(coqHeader("C12: statement skeleton of RetentionScanner.Start / DoScan / Join (pkg/storage/retention.go; logging and metrics stripped) and the constants of the run loop."))
	fmt.Fprintf(&b, "Definition start_skeleton : list (list N) :=\n  %s%%N.\n\n", coqStrList(ss))
	fmt.Fprintf(&b, "Definition doscan_skeleton : list (list N) :=\n  %s%%N.\n\n", coqStrList(ds))
	fmt.Fprintf(&b, "Definition join_skeleton : list (list N) :=\n  %s%%N.\n\n", coqStrList(js))
	fmt.Fprintf(&b, "(* if rs.retentionPeriod %s %s *)\nDefinition disabled_guard_op : list N := %s%%N.\nDefinition disabled_guard_rhs : Z := %s%%Z.\n\n", guardOp, guardRHS, coqStr(guardOp), guardRHS)
	fmt.Fprintf(&b, "(* if since %s %s *)\nDefinition wait_op : list N := %s%%N.\nDefinition wait_seconds : Z := %d%%Z.\n", waitOp, waitRHS, coqStr(waitOp), secs)
	return b.String(), nil
}

package main

func init() {
	fpRegister("pkg/policy/address.go", "Addressing.ShouldAcceptDomain", "Addressing.ShouldStoreDomain", "Addressing.ShouldAcceptOriginDomain")
	fpRegister("pkg/stringutil/utils.go", "MatchWithWildcards", "SliceContains", "SliceToLower")
	fpRegister("pkg/config/config.go", "Process")
}

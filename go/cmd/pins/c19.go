package main

import (
	"fmt"
	"go/ast"
	"strings"
)

// C19: the shape of Services.Start (which components are started unconditionally, which of them
// report readiness through makeReadyFunc, whether a goroutine waits for all of them before calling
// readyFunc) and the order of the waits main() performs after cancelling; fingerprints of the
// modelled functions.
func init() {
	fpRegister("pkg/server/lifecycle.go", "Services.Start", "Services.Notify", "Services.setupNotify", "Services.makeReadyFunc")
	fpRegister("pkg/server/smtp/listener.go", "Server.Start", "Server.serve", "Server.Drain")
	fpRegister("pkg/server/pop3/listener.go", "Server.Start", "Server.serve", "Server.Drain")
	fpRegister("pkg/server/web/server.go", "Server.Start")
	fpRegister("pkg/storage/retention.go", "RetentionScanner.Start", "RetentionScanner.DoScan", "RetentionScanner.Join")
	fpRegister("cmd/inbucket/main.go", "main")
	register("LifecyclePins.v", genLifecyclePins)
}

// selChain renders a selector chain such as s.SMTPServer.Start as "s.SMTPServer.Start".
func selChain(e ast.Expr) string {
	switch x := e.(type) {
	case *ast.Ident:
		return x.Name
	case *ast.SelectorExpr:
		return selChain(x.X) + "." + x.Sel.Name
	}
	return "?"
}

func coqBool(b bool) string {
	if b {
		return "true"
	}
	return "false"
}

func genLifecyclePins(repo string) (string, error) {
	_, f, err := parseFile(repo, "pkg/server/lifecycle.go")
	if err != nil {
		return "", err
	}
	start := findFunc(f, "Services.Start")
	if start == nil {
		return "", fmt.Errorf("Services.Start not found")
	}
	started := map[string]bool{}
	tracked := map[string]bool{}
	waiter := false
	// only TOP-LEVEL statements of Start count: a component started inside another goroutine or
	// under a condition is not started unconditionally
	for _, st := range start.Body.List {
		gs, ok := st.(*ast.GoStmt)
		if !ok {
			continue
		}
		if fl, ok := gs.Call.Fun.(*ast.FuncLit); ok {
			// go func() { s.ready.Wait(); readyFunc() }()
			sawWait, sawCall := false, false
			for _, b := range fl.Body.List {
				if es, ok := b.(*ast.ExprStmt); ok {
					if ce, ok := es.X.(*ast.CallExpr); ok {
						c := selChain(ce.Fun)
						if strings.HasSuffix(c, ".ready.Wait") {
							sawWait = true
						}
						if c == "readyFunc" && sawWait {
							sawCall = true
						}
					}
				}
			}
			if sawWait && sawCall && len(fl.Body.List) == 2 {
				waiter = true
			}
			continue
		}
		c := selChain(gs.Call.Fun) // s.X.Start
		parts := strings.Split(c, ".")
		if len(parts) == 3 && parts[2] == "Start" {
			started[parts[1]] = true
			for _, a := range gs.Call.Args {
				if ce, ok := a.(*ast.CallExpr); ok && strings.HasSuffix(selChain(ce.Fun), ".makeReadyFunc") {
					tracked[parts[1]] = true
				}
			}
		}
	}
	// main(): the waits after the signal loop, in order
	_, mf, err := parseFile(repo, "cmd/inbucket/main.go")
	if err != nil {
		return "", err
	}
	mainFn := findFunc(mf, "main")
	if mainFn == nil {
		return "", fmt.Errorf("main not found")
	}
	var waits []string
	for _, st := range mainFn.Body.List {
		if es, ok := st.(*ast.ExprStmt); ok {
			if ce, ok := es.X.(*ast.CallExpr); ok {
				switch selChain(ce.Fun) {
				case "services.SMTPServer.Drain":
					waits = append(waits, "WSmtpDrain")
				case "services.POP3Server.Drain":
					waits = append(waits, "WPop3Drain")
				case "services.RetentionScanner.Join":
					waits = append(waits, "WRetJoin")
				}
			}
		}
	}
	s := coqHeader("Shape of Services.Start in pkg/server/lifecycle.go (top-level `go s.X.Start(...)` statements, which pass s.makeReadyFunc(), the ready waiter) and the waits of main() after cancel, in order.")
	s += "Inductive wait := WSmtpDrain | WPop3Drain | WRetJoin.\n\n"
	for _, x := range [][2]string{{"MsgHub", "hub"}, {"WebServer", "web"}, {"SMTPServer", "smtp"}, {"POP3Server", "pop3"}, {"RetentionScanner", "retention"}} {
		s += fmt.Sprintf("Definition start_%s : bool := %s.\n", x[1], coqBool(started[x[0]]))
	}
	for _, x := range [][2]string{{"WebServer", "web"}, {"SMTPServer", "smtp"}, {"POP3Server", "pop3"}, {"MsgHub", "hub"}, {"RetentionScanner", "retention"}} {
		s += fmt.Sprintf("Definition tracked_%s : bool := %s.\n", x[1], coqBool(tracked[x[0]]))
	}
	s += fmt.Sprintf("Definition ready_waiter : bool := %s.\n", coqBool(waiter))
	s += "Definition main_waits : list wait := [" + strings.Join(waits, "; ") + "].\n"

	// the order of the go statements of Services.Start
	var order []string
	names := map[string]string{"MsgHub": "SHub", "WebServer": "SWeb", "SMTPServer": "SSmtp", "POP3Server": "SPop3", "RetentionScanner": "SRetention"}
	for _, st := range start.Body.List {
		gs, ok := st.(*ast.GoStmt)
		if !ok {
			continue
		}
		if _, ok := gs.Call.Fun.(*ast.FuncLit); ok {
			order = append(order, "SReadyWaiter")
			continue
		}
		parts := strings.Split(selChain(gs.Call.Fun), ".")
		if len(parts) == 3 && parts[2] == "Start" && names[parts[1]] != "" {
			order = append(order, names[parts[1]])
		} else {
			order = append(order, "SOther")
		}
	}
	s += "\nInductive startable := SHub | SWeb | SSmtp | SPop3 | SRetention | SReadyWaiter | SOther.\n"
	s += "Definition start_order : list startable := [" + strings.Join(order, "; ") + "].\n"

	// main(): what follows the signal loop, in order; which branches of the loop cancel before leaving it
	s += "Inductive mstep := MTimedExit | MWait (w : wait) | MOther.\n"
	var seq []string
	after := false
	var causes []string
	for _, st := range mainFn.Body.List {
		if ls, ok := st.(*ast.LabeledStmt); ok && ls.Label.Name == "signalLoop" {
			after = true
			// every branch that leaves the loop: does it call svcCancel() first?
			ast.Inspect(ls, func(n ast.Node) bool {
				cc, ok := n.(*ast.CaseClause)
				if ok {
					cancels, leaves := false, false
					for _, b := range cc.Body {
						if es, ok := b.(*ast.ExprStmt); ok {
							if ce, ok := es.X.(*ast.CallExpr); ok && selChain(ce.Fun) == "svcCancel" {
								cancels = true
							}
						}
						if bs, ok := b.(*ast.BranchStmt); ok && bs.Label != nil && bs.Label.Name == "signalLoop" {
							leaves = cancels
							if !cancels {
								causes = append(causes, "false")
							}
						}
					}
					if leaves {
						causes = append(causes, "true")
					}
				}
				if cm, ok := n.(*ast.CommClause); ok {
					cancels := false
					for _, b := range cm.Body {
						if es, ok := b.(*ast.ExprStmt); ok {
							if ce, ok := es.X.(*ast.CallExpr); ok && selChain(ce.Fun) == "svcCancel" {
								cancels = true
							}
						}
						if bs, ok := b.(*ast.BranchStmt); ok && bs.Label != nil && bs.Label.Name == "signalLoop" {
							causes = append(causes, coqBool(cancels))
						}
					}
				}
				return true
			})
			continue
		}
		if !after {
			continue
		}
		switch x := st.(type) {
		case *ast.GoStmt:
			if selChain(x.Call.Fun) == "timedExit" {
				seq = append(seq, "MTimedExit")
			} else {
				seq = append(seq, "MOther")
			}
		case *ast.ExprStmt:
			if ce, ok := x.X.(*ast.CallExpr); ok {
				switch selChain(ce.Fun) {
				case "services.SMTPServer.Drain":
					seq = append(seq, "MWait WSmtpDrain")
				case "services.POP3Server.Drain":
					seq = append(seq, "MWait WPop3Drain")
				case "services.RetentionScanner.Join":
					seq = append(seq, "MWait WRetJoin")
				}
			}
		}
	}
	s += "Definition main_after_loop : list mstep := [" + strings.Join(seq, "; ") + "].\n"
	s += "(* for every branch that leaves the signal loop: does it call svcCancel() first? *)\n"
	s += "Definition leaving_branches_cancel : list bool := [" + strings.Join(causes, "; ") + "].\n"
	// timedExit: time.Sleep(N * time.Second)
	secs := int64(-1)
	if te := findFunc(mf, "timedExit"); te != nil {
		ast.Inspect(te, func(n ast.Node) bool {
			if ce, ok := n.(*ast.CallExpr); ok && selChain(ce.Fun) == "time.Sleep" && len(ce.Args) == 1 {
				if be, ok := ce.Args[0].(*ast.BinaryExpr); ok {
					if bl, ok := be.X.(*ast.BasicLit); ok && selChain(be.Y) == "time.Second" {
						fmt.Sscan(bl.Value, &secs)
					}
				}
			}
			return true
		})
	}
	s += fmt.Sprintf("Definition timed_exit_seconds : nat := %d%%nat.\n", secs)
	return s, nil
}

package main

// SMTP reply codes written anywhere in pkg/server/smtp/handler.go: the literal three-digit prefixes of the
// arguments of every `send(...)` call (a string literal, fmt.Sprintf with a literal format, or a concatenation
// that starts with a literal), as one sorted set; a format that starts with a verb (the code comes from an
// extension's answer) is counted separately. The model's step function must produce exactly these codes.

import (
	"fmt"
	"go/ast"
	"go/token"
	"sort"
	"strconv"
	"strings"
)

func init() { register("SmtpReplies.v", genSmtpReplies) }

func leadingLiteral(e ast.Expr) (string, bool) {
	switch x := e.(type) {
	case *ast.BasicLit:
		if x.Kind == token.STRING {
			s, err := strconv.Unquote(x.Value)
			return s, err == nil
		}
	case *ast.BinaryExpr:
		if x.Op == token.ADD {
			return leadingLiteral(x.X)
		}
	case *ast.ParenExpr:
		return leadingLiteral(x.X)
	case *ast.CallExpr:
		if se, ok := x.Fun.(*ast.SelectorExpr); ok && se.Sel.Name == "Sprintf" && len(x.Args) > 0 {
			return leadingLiteral(x.Args[0])
		}
	}
	return "", false
}

func genSmtpReplies(repo string) (string, error) {
	_, f, err := parseFile(repo, "pkg/server/smtp/handler.go")
	if err != nil {
		return "", err
	}
	codes := map[int]bool{}
	dynamic, sites := 0, 0
	var bad []string
	ast.Inspect(f, func(n ast.Node) bool {
		c, ok := n.(*ast.CallExpr)
		if !ok {
			return true
		}
		se, ok := c.Fun.(*ast.SelectorExpr)
		if !ok || se.Sel.Name != "send" || len(c.Args) != 1 {
			return true
		}
		sites++
		lit, ok := leadingLiteral(c.Args[0])
		switch {
		case !ok:
			if id, isIdent := c.Args[0].(*ast.Ident); isIdent {
				bad = append(bad, "send("+id.Name+")")
			} else {
				bad = append(bad, "send(<expression without a leading literal>)")
			}
		case strings.HasPrefix(lit, "%"):
			dynamic++
		case len(lit) >= 3 && lit[0] >= '0' && lit[0] <= '9' && lit[1] >= '0' && lit[1] <= '9' && lit[2] >= '0' && lit[2] <= '9':
			n, _ := strconv.Atoi(lit[:3])
			codes[n] = true
		default:
			bad = append(bad, "send("+strconv.Quote(lit)+")")
		}
		return true
	})
	if len(bad) > 0 {
		return "", fmt.Errorf("reply sites whose code cannot be read: %s", strings.Join(bad, ", "))
	}
	if sites == 0 {
		return "", fmt.Errorf("no send(...) call found in handler.go")
	}
	var cs []int
	for c := range codes {
		cs = append(cs, c)
	}
	sort.Ints(cs)
	ss := make([]string, len(cs))
	for i, c := range cs {
		ss[i] = strconv.Itoa(c)
	}
	var b strings.Builder
	b.WriteString(coqHeader("C03: the reply codes written by pkg/server/smtp/handler.go (literal prefixes of every send call)."))
	fmt.Fprintf(&b, "Definition smtp_reply_codes : list Z := [%s]%%Z.\n", strings.Join(ss, "; "))
	fmt.Fprintf(&b, "(* reply sites whose code comes from an extension's answer (format starts with a verb) *)\nDefinition smtp_dynamic_reply_sites : nat := %d%%nat.\n", dynamic)
	return b.String(), nil
}

package main

// The trace headers every stored message starts with: the three format strings (Received: in
// pkg/server/smtp/handler.go dataHandler, "  for <...>" and Return-Path: in pkg/message/manager.go Deliver), the
// expressions substituted into them, and the order in which Deliver hands the pieces to the store
// (io.MultiReader(returnPath, recvd, source)). The model's trace_headers / stored_source (Model/Dot.v) must render
// exactly these formats in exactly this order (Proofs/SmtpTraceFmt.v).

import (
	"bytes"
	"fmt"
	"go/ast"
	"go/printer"
	"go/token"
	"strconv"
	"strings"
)

func init() { register("SmtpTrace.v", genSmtpTrace) }

type sprintfSite struct {
	format string
	args   []string
}

func exprText(fset *token.FileSet, e ast.Expr) string {
	var b bytes.Buffer
	printer.Fprint(&b, fset, e)
	return b.String()
}

// sprintfSites returns every fmt.Sprintf call of the file whose format is a string literal.
func sprintfSites(fset *token.FileSet, f *ast.File) []sprintfSite {
	var out []sprintfSite
	ast.Inspect(f, func(n ast.Node) bool {
		c, ok := n.(*ast.CallExpr)
		if !ok {
			return true
		}
		se, ok := c.Fun.(*ast.SelectorExpr)
		if !ok || se.Sel.Name != "Sprintf" || len(c.Args) == 0 {
			return true
		}
		lit, ok := c.Args[0].(*ast.BasicLit)
		if !ok || lit.Kind != token.STRING {
			return true
		}
		s, err := strconv.Unquote(lit.Value)
		if err != nil {
			return true
		}
		site := sprintfSite{format: s}
		for _, a := range c.Args[1:] {
			site.args = append(site.args, exprText(fset, a))
		}
		out = append(out, site)
		return true
	})
	return out
}

func oneSite(sites []sprintfSite, what string, pred func(string) bool) (sprintfSite, error) {
	var found []sprintfSite
	for _, s := range sites {
		if pred(s.format) {
			found = append(found, s)
		}
	}
	if len(found) != 1 {
		return sprintfSite{}, fmt.Errorf("%s: expected exactly one Sprintf site, found %d", what, len(found))
	}
	return found[0], nil
}

func genSmtpTrace(repo string) (string, error) {
	fh, h, err := parseFile(repo, "pkg/server/smtp/handler.go")
	if err != nil {
		return "", err
	}
	fm, m, err := parseFile(repo, "pkg/message/manager.go")
	if err != nil {
		return "", err
	}
	recv, err := oneSite(sprintfSites(fh, h), "Received header (handler.go)", func(s string) bool { return strings.HasPrefix(s, "Received:") })
	if err != nil {
		return "", err
	}
	ms := sprintfSites(fm, m)
	forS, err := oneSite(ms, "Received continuation (manager.go)", func(s string) bool { return strings.Contains(s, "for <") })
	if err != nil {
		return "", err
	}
	rp, err := oneSite(ms, "Return-Path (manager.go)", func(s string) bool { return strings.HasPrefix(s, "Return-Path:") })
	if err != nil {
		return "", err
	}
	// the order of the pieces: the arguments of the io.MultiReader call inside Deliver, reduced to the variable read
	var order []string
	ast.Inspect(m, func(n ast.Node) bool {
		c, ok := n.(*ast.CallExpr)
		if !ok {
			return true
		}
		se, ok := c.Fun.(*ast.SelectorExpr)
		if !ok || se.Sel.Name != "MultiReader" {
			return true
		}
		for _, a := range c.Args {
			inner, ok := a.(*ast.CallExpr)
			if ok && len(inner.Args) == 1 {
				order = append(order, exprText(fm, inner.Args[0]))
			} else {
				order = append(order, exprText(fm, a))
			}
		}
		return false
	})
	if len(order) == 0 {
		return "", fmt.Errorf("no io.MultiReader call found in manager.go")
	}
	var b strings.Builder
	b.WriteString(coqHeader("C01/C02: the trace headers of a stored message - format strings, substituted expressions, order of the pieces."))
	w := func(name string, s sprintfSite) {
		fmt.Fprintf(&b, "(* %q *)\nDefinition %s : list N := %s%%N.\nDefinition %s_args : list (list N) :=\n  %s%%N.\n", s.format, name, coqStr(s.format), name, coqStrList(s.args))
		fmt.Fprintf(&b, "(* args: %s *)\n\n", strings.Join(s.args, ", "))
	}
	w("fmt_received", recv)
	w("fmt_for", forS)
	w("fmt_retpath", rp)
	fmt.Fprintf(&b, "(* io.MultiReader(%s) *)\nDefinition deliver_piece_order : list (list N) :=\n  %s%%N.\n", strings.Join(order, ", "), coqStrList(order))
	return b.String(), nil
}

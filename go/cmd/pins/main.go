// Command pins is the translator part of the model/code tie: it regenerates coq/Gen/*.v
// from the repository's current source (tables, limits, character classes, the RE2
// programs of the regular expressions) and fingerprints the modelled functions.
// Files are only rewritten when their content changes.
package main

import (
	"crypto/sha1"
	"encoding/hex"
	"encoding/json"
	"flag"
	"fmt"
	"os"
	"path/filepath"
	"sort"
)

type generator struct {
	name string // output file name under coq/Gen
	fn   func(repo string) (string, error)
}

var generators []generator

func register(name string, fn func(repo string) (string, error)) {
	generators = append(generators, generator{name, fn})
}

func main() {
	repo := flag.String("repo", "/repo", "repository root")
	out := flag.String("out", "", "output directory (coq/Gen)")
	flag.Parse()
	info := map[string]interface{}{}
	hashes := map[string]string{}
	changed := []string{}
	sort.Slice(generators, func(i, j int) bool { return generators[i].name < generators[j].name })
	failed := map[string]string{}
	for _, g := range generators {
		text, err := g.fn(*repo)
		if err != nil {
			// The source no longer has the shape this generator reads. Do not stop the other
			// generators (they serve other properties): fall back to the committed baseline of this
			// file, so that the model can still run and search for a failing input, and report the
			// failure; the check marks every theorem that depends on this file as not discharged.
			failed[g.name] = err.Error()
			base, berr := os.ReadFile(filepath.Join(*out, "..", "GenBaseline", g.name+".txt"))
			if berr != nil {
				fmt.Fprintf(os.Stderr, "pins: %s: %v (no baseline: %v)\n", g.name, err, berr)
				continue
			}
			text = string(base)
		}
		p := filepath.Join(*out, g.name)
		old, _ := os.ReadFile(p)
		if string(old) != text {
			if err := os.WriteFile(p, []byte(text), 0o644); err != nil {
				fmt.Fprintln(os.Stderr, err)
				os.Exit(1)
			}
			changed = append(changed, g.name)
		}
		h := sha1.Sum([]byte(text))
		hashes[g.name] = hex.EncodeToString(h[:])[:12]
	}
	info["failed"] = failed
	info["gen_hashes"] = hashes
	info["rewritten"] = changed
	info["fingerprints"] = fingerprints(*repo)
	b, _ := json.Marshal(info)
	fmt.Println(string(b))
}

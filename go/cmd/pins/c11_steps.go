package main

// The ORDER of the file-system mutation steps of the file store, read from the source: for each function of
// pkg/storage/file that mutates the disk, its body flattened in source order into tokens —
//   P "site"     a verifhook.Point call (crash point)
//   O "call"     a mutating os / io / bufio / gob call (os.Create, os.Remove, os.RemoveAll, os.Rename, os.MkdirAll,
//                io.Copy, Flush, Close, Encode)
//   C "callee"   a call of one of the store's own helpers (newMessage, createDir, writeIndex, removeMessage, …)
//   E tok        the same, inside an error path (an `if … err … { …; return … }` block)
//   If_ "cond" … Else_ … End_   /  For_ "cond" … End_      control structure (condition as source text)
//   Ret_         a return statement
// Model/FileDiskSkel.v holds the skeletons the disk model was written from; Proofs/FileDiskSkel.v proves that they
// ARE these (file_steps_pinned) and that the model's step lists are assembled from them.

import (
	"bytes"
	"fmt"
	"go/ast"
	"go/printer"
	"go/token"
	"strconv"
	"strings"
)

func init() { register("FileSteps.v", genFileSteps) }

var fsHelpers = map[string]bool{"newMessage": true, "createDir": true, "writeIndex": true, "removeMessage": true,
	"removeDir": true, "removeDirIfEmpty": true, "readIndex": true, "purge": true, "hasID": true, "generateID": true, "mbox": true}

var fsOsCalls = map[string]bool{"os.Create": true, "os.Remove": true, "os.RemoveAll": true, "os.Rename": true,
	"os.MkdirAll": true, "os.Mkdir": true, "os.WriteFile": true, "os.Truncate": true, "os.Link": true, "os.Symlink": true,
	"io.Copy": true}
var fsMethods = map[string]bool{"Flush": true, "Close": true, "Encode": true, "Sync": true, "Write": true, "WriteString": true}

func stepExprText(fset *token.FileSet, e ast.Node) string {
	var b bytes.Buffer
	printer.Fprint(&b, fset, e)
	return strings.Join(strings.Fields(b.String()), " ")
}

func coqQuoted(s string) string { return "\"" + strings.ReplaceAll(s, "\"", "\"\"") + "\"" }

type stepWalker struct {
	fset *token.FileSet
	out  []string
	err  int // depth of enclosing error paths
}

func (w *stepWalker) emit(t string) {
	for i := 0; i < w.err; i++ {
		t = "E (" + t + ")"
	}
	w.out = append(w.out, t)
}

// calls emits the tokens of the calls inside an expression / simple statement, in source order.
func (w *stepWalker) calls(n ast.Node) {
	if n == nil {
		return
	}
	ast.Inspect(n, func(x ast.Node) bool {
		switch c := x.(type) {
		case *ast.FuncLit:
			return false
		case *ast.CallExpr:
			// arguments first? Go evaluates arguments before the call: emit nested calls, then this one
			for _, a := range c.Args {
				w.calls(a)
			}
			if se, ok := c.Fun.(*ast.SelectorExpr); ok {
				w.calls(se.X)
				name := se.Sel.Name
				if id, ok := se.X.(*ast.Ident); ok {
					q := id.Name + "." + name
					if q == "verifhook.Point" && len(c.Args) > 0 {
						if lit, ok := c.Args[0].(*ast.BasicLit); ok {
							s, _ := strconv.Unquote(lit.Value)
							w.emit("P " + coqQuoted(s))
							return false
						}
					}
					if fsOsCalls[q] {
						w.emit("O " + coqQuoted(q))
						return false
					}
				}
				if fsHelpers[name] {
					w.emit("C " + coqQuoted(name))
				} else if fsMethods[name] {
					w.emit("O " + coqQuoted(name))
				}
			} else if id, ok := c.Fun.(*ast.Ident); ok && fsHelpers[id.Name] {
				w.emit("C " + coqQuoted(id.Name))
			}
			return false
		}
		return true
	})
}

func mentionsErr(e ast.Expr) bool {
	found := false
	ast.Inspect(e, func(x ast.Node) bool {
		if id, ok := x.(*ast.Ident); ok && id.Name == "err" {
			found = true
		}
		return true
	})
	return found
}

func endsInReturn(b *ast.BlockStmt) bool {
	if b == nil || len(b.List) == 0 {
		return false
	}
	_, ok := b.List[len(b.List)-1].(*ast.ReturnStmt)
	return ok
}

func (w *stepWalker) stmts(list []ast.Stmt) {
	for _, s := range list {
		w.stmt(s)
	}
}

func (w *stepWalker) stmt(s ast.Stmt) {
	switch st := s.(type) {
	case *ast.BlockStmt:
		w.stmts(st.List)
	case *ast.IfStmt:
		if st.Init != nil {
			w.stmt(st.Init)
		}
		w.calls(st.Cond)
		if mentionsErr(st.Cond) && endsInReturn(st.Body) && st.Else == nil {
			w.err++
			w.stmts(st.Body.List)
			w.err--
			return
		}
		w.emit("If_ " + coqQuoted(stepExprText(w.fset, st.Cond)))
		w.stmts(st.Body.List)
		if st.Else != nil {
			w.emit("Else_")
			w.stmt(st.Else)
		}
		w.emit("End_")
	case *ast.ForStmt:
		if st.Init != nil {
			w.stmt(st.Init)
		}
		cond := "true"
		if st.Cond != nil {
			cond = stepExprText(w.fset, st.Cond)
		}
		w.emit("For_ " + coqQuoted(cond))
		if st.Cond != nil {
			w.calls(st.Cond)
		}
		w.stmts(st.Body.List)
		if st.Post != nil {
			w.stmt(st.Post)
		}
		w.emit("End_")
	case *ast.RangeStmt:
		w.emit("For_ " + coqQuoted("range "+stepExprText(w.fset, st.X)))
		w.stmts(st.Body.List)
		w.emit("End_")
	case *ast.ReturnStmt:
		w.calls(s)
		w.emit("Ret_")
	case *ast.DeferStmt, *ast.GoStmt:
		// deferred unlocks / closes of read handles are not part of the mutation order
	case *ast.SwitchStmt, *ast.TypeSwitchStmt, *ast.SelectStmt:
		w.emit("If_ " + coqQuoted("switch"))
		ast.Inspect(st, func(x ast.Node) bool {
			if cc, ok := x.(*ast.CaseClause); ok {
				w.stmts(cc.Body)
				return false
			}
			return true
		})
		w.emit("End_")
	default:
		w.calls(s)
	}
}

func genFileSteps(repo string) (string, error) {
	targets := []struct{ file, fn, name string }{
		{"pkg/storage/file/fstore.go", "Store.AddMessage", "src_AddMessage"},
		{"pkg/storage/file/fstore.go", "Store.MarkSeen", "src_MarkSeen"},
		{"pkg/storage/file/fstore.go", "Store.RemoveMessage", "src_RemoveMessage"},
		{"pkg/storage/file/fstore.go", "Store.PurgeMessages", "src_PurgeMessages"},
		{"pkg/storage/file/fmessage.go", "mbox.newMessage", "src_newMessage"},
		{"pkg/storage/file/mbox.go", "mbox.removeMessage", "src_removeMessage"},
		{"pkg/storage/file/mbox.go", "mbox.purge", "src_purge"},
		{"pkg/storage/file/mbox.go", "mbox.writeIndex", "src_writeIndex"},
		{"pkg/storage/file/mbox.go", "mbox.createDir", "src_createDir"},
		{"pkg/storage/file/mbox.go", "mbox.removeDir", "src_removeDir"},
		{"pkg/storage/file/mbox.go", "removeDirIfEmpty", "src_removeDirIfEmpty"},
	}
	var b strings.Builder
	b.WriteString("(* GENERATED by go/cmd/pins/c11_steps.go from pkg/storage/file: the order of the mutation steps in the source. *)\n")
	b.WriteString("From Coq Require Import String List.\nFrom IV Require Import Model.FileDiskSkel.\nImport ListNotations.\nOpen Scope string_scope.\n\n")
	for _, t := range targets {
		fset, f, err := parseFile(repo, t.file)
		if err != nil {
			return "", err
		}
		fd := findFunc(f, t.fn)
		if fd == nil || fd.Body == nil {
			return "", fmt.Errorf("%s: function %s not found", t.file, t.fn)
		}
		w := &stepWalker{fset: fset}
		w.stmts(fd.Body.List)
		b.WriteString("Definition " + t.name + " : list tok :=\n  [" + strings.Join(w.out, ";\n   ") + "].\n\n")
	}
	return b.String(), nil
}

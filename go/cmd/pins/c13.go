package main

import (
	"bytes"
	"fmt"
	"go/ast"
	"go/printer"
	"go/token"
	"sort"
	"strconv"
	"strings"
)

// C13: the POP3 command table (handler.go: var commands) and fingerprints of the session code.
func init() {
	fpRegister("pkg/server/pop3/handler.go",
		"Server.startSession", "Session.authorizationHandler", "Session.transactionHandler",
		"Session.sendMessage", "Session.sendMessageTop", "Session.loadMailbox", "Session.retainAll",
		"Session.processDeletes", "Session.send", "Session.readLine", "Session.parseCmd", "Session.reset",
		"Session.ooSeq", "lineScanner.Scan", "lineScanner.Err")
	register("Pop3Consts.v", genPop3Consts)
}

func genPop3Consts(repo string) (string, error) {
	_, f, err := parseFile(repo, "pkg/server/pop3/handler.go")
	if err != nil {
		return "", err
	}
	var names []string
	found := false
	for _, d := range f.Decls {
		gd, ok := d.(*ast.GenDecl)
		if !ok || gd.Tok != token.VAR {
			continue
		}
		for _, sp := range gd.Specs {
			vs := sp.(*ast.ValueSpec)
			for i, n := range vs.Names {
				if n.Name != "commands" || i >= len(vs.Values) {
					continue
				}
				cl, ok := vs.Values[i].(*ast.CompositeLit)
				if !ok {
					return "", fmt.Errorf("commands is not a composite literal")
				}
				found = true
				for _, e := range cl.Elts {
					kv, ok := e.(*ast.KeyValueExpr)
					if !ok {
						return "", fmt.Errorf("commands: unexpected element")
					}
					k, ok1 := kv.Key.(*ast.BasicLit)
					v, ok2 := kv.Value.(*ast.Ident)
					if !ok1 || !ok2 {
						return "", fmt.Errorf("commands: unexpected key/value")
					}
					s, err := strconv.Unquote(k.Value)
					if err != nil {
						return "", err
					}
					if v.Name == "true" {
						names = append(names, s)
					}
				}
			}
		}
	}
	if !found {
		return "", fmt.Errorf("var commands not found in pkg/server/pop3/handler.go")
	}
	sort.Strings(names)
	out := coqHeader("POP3: the keys of `commands` (pkg/server/pop3/handler.go) that map to true; the case labels of the\n    `switch cmd` of authorizationHandler / transactionHandler (every other command of the table falls to the\n    default branch = out of sequence in that state); the words startSession compares cmd with (answered in any state).")
	out += "Definition pop3_commands : list (list N) :=\n  " + coqStrList(names) + ".\n\n"
	for _, h := range []struct{ fn, def string }{
		{"Session.authorizationHandler", "pop3_auth_cases"},
		{"Session.transactionHandler", "pop3_trans_cases"},
	} {
		d := findFunc(f, h.fn)
		if d == nil {
			return "", fmt.Errorf("%s not found", h.fn)
		}
		cases, err := switchCases(d, "cmd")
		if err != nil {
			return "", fmt.Errorf("%s: %v", h.fn, err)
		}
		sort.Strings(cases)
		out += "Definition " + h.def + " : list (list N) :=\n  " + coqStrList(cases) + ".\n\n"
	}
	d := findFunc(f, "Server.startSession")
	if d == nil {
		return "", fmt.Errorf("Server.startSession not found")
	}
	var any []string
	ast.Inspect(d, func(n ast.Node) bool {
		be, ok := n.(*ast.BinaryExpr)
		if !ok || be.Op != token.EQL {
			return true
		}
		id, ok1 := be.X.(*ast.Ident)
		lit, ok2 := be.Y.(*ast.BasicLit)
		if ok1 && ok2 && id.Name == "cmd" && lit.Kind == token.STRING {
			if s, err := strconv.Unquote(lit.Value); err == nil && s != "" {
				any = append(any, s)
			}
		}
		return true
	})
	sort.Strings(any)
	out += "Definition pop3_anystate : list (list N) :=\n  " + coqStrList(any) + ".\n\n"
	// the reply sites: first word of what every send(...) of a function writes, in source order
	for _, h := range []struct{ fn, def string }{
		{"Server.startSession", "pop3_loop_sends"},
		{"Session.authorizationHandler", "pop3_auth_sends"},
		{"Session.transactionHandler", "pop3_trans_sends"},
		{"Session.sendMessage", "pop3_retr_sends"},
		{"Session.sendMessageTop", "pop3_top_sends"},
		{"Session.ooSeq", "pop3_ooseq_sends"},
	} {
		d := findFunc(f, h.fn)
		if d == nil {
			return "", fmt.Errorf("%s not found", h.fn)
		}
		out += "Definition " + h.def + " : list (list N) :=\n  " + coqStrList(sendHeads(d)) + ".\n\n"
	}
	// the conditions that govern STLS, as source text
	fsetF, fF, err := parseFile(repo, "pkg/server/pop3/handler.go")
	if err != nil {
		return "", err
	}
	conds, err := tlsConds(fsetF, fF)
	if err != nil {
		return "", err
	}
	out += "Definition pop3_capa_stls_cond : list N := " + coqStr(conds[0]) + ".\n"
	out += "Definition pop3_stls_unavailable_cond : list N := " + coqStr(conds[1]) + ".\n"
	out += "Definition pop3_stls_already_cond : list N := " + coqStr(conds[2]) + ".\n"
	return out, nil
}

// sendHeads: for every call x.send(arg) in d, the first word of the string it writes
// ("+OK", "-ERR", ".", a capability word; "<expr>" when the argument is not a literal / Sprintf of a literal).
func sendHeads(d *ast.FuncDecl) []string {
	var out []string
	ast.Inspect(d, func(n ast.Node) bool {
		ce, ok := n.(*ast.CallExpr)
		if !ok {
			return true
		}
		se, ok := ce.Fun.(*ast.SelectorExpr)
		if !ok || se.Sel.Name != "send" || len(ce.Args) != 1 {
			return true
		}
		lit := func(e ast.Expr) (string, bool) {
			bl, ok := e.(*ast.BasicLit)
			if !ok || bl.Kind != token.STRING {
				return "", false
			}
			s, err := strconv.Unquote(bl.Value)
			return s, err == nil
		}
		head := "<expr>"
		if s, ok := lit(ce.Args[0]); ok {
			head = strings.SplitN(s, " ", 2)[0]
		} else if c2, ok := ce.Args[0].(*ast.CallExpr); ok && len(c2.Args) > 0 {
			if s, ok := lit(c2.Args[0]); ok {
				head = strings.SplitN(s, " ", 2)[0]
			}
		}
		out = append(out, head)
		return true
	})
	return out
}

// tlsConds returns, as printed source: the condition under which CAPA sends "STLS", and the two
// refusal conditions of the STLS case (the if statements whose body sends "-ERR TLS unavailable ..." /
// "-ERR A TLS session already agreed upon.").
func tlsConds(fset *token.FileSet, f *ast.File) ([]string, error) {
	res := make([]string, 3)
	show := func(e ast.Expr) string {
		var b bytes.Buffer
		printer.Fprint(&b, fset, e)
		return b.String()
	}
	sends := func(body *ast.BlockStmt, prefix string) bool {
		found := false
		ast.Inspect(body, func(n ast.Node) bool {
			if bl, ok := n.(*ast.BasicLit); ok && bl.Kind == token.STRING {
				if s, err := strconv.Unquote(bl.Value); err == nil && strings.HasPrefix(s, prefix) {
					found = true
				}
			}
			return true
		})
		return found
	}
	ast.Inspect(f, func(n ast.Node) bool {
		is, ok := n.(*ast.IfStmt)
		if !ok {
			return true
		}
		switch {
		case len(is.Body.List) == 1 && sends(is.Body, "STLS") && !sends(is.Body, "-ERR"):
			res[0] = show(is.Cond)
		case sends(is.Body, "-ERR TLS unavailable"):
			res[1] = show(is.Cond)
		case sends(is.Body, "-ERR A TLS session already"):
			res[2] = show(is.Cond)
		}
		return true
	})
	for i, r := range res {
		if r == "" {
			return nil, fmt.Errorf("TLS condition %d not found in handler.go", i)
		}
	}
	return res, nil
}

// switchCases returns the string case labels of the single `switch <tag>` statement of a function.
func switchCases(d *ast.FuncDecl, tag string) ([]string, error) {
	var out []string
	found := 0
	var ferr error
	ast.Inspect(d, func(n ast.Node) bool {
		sw, ok := n.(*ast.SwitchStmt)
		if !ok {
			return true
		}
		id, ok := sw.Tag.(*ast.Ident)
		if !ok || id.Name != tag {
			return true
		}
		found++
		for _, st := range sw.Body.List {
			cc := st.(*ast.CaseClause)
			for _, e := range cc.List {
				lit, ok := e.(*ast.BasicLit)
				if !ok || lit.Kind != token.STRING {
					ferr = fmt.Errorf("non-literal case label")
					return false
				}
				s, err := strconv.Unquote(lit.Value)
				if err != nil {
					ferr = err
					return false
				}
				out = append(out, s)
			}
		}
		return true
	})
	if ferr != nil {
		return nil, ferr
	}
	if found != 1 {
		return nil, fmt.Errorf("expected one switch on %s, found %d", tag, found)
	}
	return out, nil
}

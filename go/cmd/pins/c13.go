package main

import (
	"fmt"
	"go/ast"
	"go/token"
	"sort"
	"strconv"
)

// C13: the POP3 command table (handler.go: var commands) and fingerprints of the session code.
func init() {
	fpRegister("pkg/server/pop3/handler.go",
		"Server.startSession", "Session.authorizationHandler", "Session.transactionHandler",
		"Session.sendMessage", "Session.sendMessageTop", "Session.loadMailbox", "Session.retainAll",
		"Session.processDeletes", "Session.send", "Session.readLine", "Session.parseCmd", "Session.reset",
		"Session.ooSeq", "lineScanner.Scan", "lineScanner.Err")
	register("Pop3Consts.v", genPop3Consts)
}

func genPop3Consts(repo string) (string, error) {
	_, f, err := parseFile(repo, "pkg/server/pop3/handler.go")
	if err != nil {
		return "", err
	}
	var names []string
	found := false
	for _, d := range f.Decls {
		gd, ok := d.(*ast.GenDecl)
		if !ok || gd.Tok != token.VAR {
			continue
		}
		for _, sp := range gd.Specs {
			vs := sp.(*ast.ValueSpec)
			for i, n := range vs.Names {
				if n.Name != "commands" || i >= len(vs.Values) {
					continue
				}
				cl, ok := vs.Values[i].(*ast.CompositeLit)
				if !ok {
					return "", fmt.Errorf("commands is not a composite literal")
				}
				found = true
				for _, e := range cl.Elts {
					kv, ok := e.(*ast.KeyValueExpr)
					if !ok {
						return "", fmt.Errorf("commands: unexpected element")
					}
					k, ok1 := kv.Key.(*ast.BasicLit)
					v, ok2 := kv.Value.(*ast.Ident)
					if !ok1 || !ok2 {
						return "", fmt.Errorf("commands: unexpected key/value")
					}
					s, err := strconv.Unquote(k.Value)
					if err != nil {
						return "", err
					}
					if v.Name == "true" {
						names = append(names, s)
					}
				}
			}
		}
	}
	if !found {
		return "", fmt.Errorf("var commands not found in pkg/server/pop3/handler.go")
	}
	sort.Strings(names)
	out := coqHeader("POP3: the keys of `commands` (pkg/server/pop3/handler.go) that map to true.")
	out += "Definition pop3_commands : list (list N) :=\n  " + coqStrList(names) + ".\n"
	return out, nil
}

package main

// C18 translator part: coq/Gen/SanitizeConsts.v
//
//   - the CSS property allow-list (keys of `allowedProperties` in pkg/webui/sanitize/css.go),
//   - the token kinds of the gorilla/css scanner the code switches on, with their names
//     (stateStart writes the name into a marker comment),
//   - the byte escapes of the two EscapeString functions the code calls (x/net/html in
//     styleTagFilter, the standard library's in TextToHTML), obtained by running them,
//   - the non-ASCII runes Go's unicode.ToLower sends into ASCII (strings.ToLower is applied to
//     the property identifier before the allow-list lookup),
//   - the literals of TextToHTML / WrapURL (anchor format, "&amp;" replacement, line-break
//     replacer pairs), read from the source with go/ast.

import (
	"fmt"
	"go/ast"
	"go/token"
	stdhtml "html"
	"sort"
	"strconv"
	"strings"
	"unicode"

	"github.com/gorilla/css/scanner"
	"github.com/inbucket/inbucket/v3/pkg/webui/sanitize"
	"verifharness/c18policy"
	xhtml "golang.org/x/net/html"
)

func init() {
	fpRegister("pkg/webui/sanitize/css.go", "sanitizeStyle", "stateStart", "stateEat", "stateValid")
	fpRegister("pkg/webui/sanitize/html.go", "HTML", "sanitizeStyleTags", "styleTagFilter")
	fpRegister("pkg/server/web/helpers.go", "TextToHTML", "WrapURL")
	register("SanitizeConsts.v", genSanitizeConsts)
	register("SanitizePolicy.v", genSanitizePolicy)
	register("SanitizePipeline.v", genSanitizePipeline)
}

// ---------------------------------------------------------------- pipeline structure of HTML()

// exprName renders f or pkg.f / recv.f
func exprName(e ast.Expr) string {
	switch x := e.(type) {
	case *ast.Ident:
		return x.Name
	case *ast.SelectorExpr:
		if b := exprName(x.X); b != "" {
			return b + "." + x.Sel.Name
		}
	case *ast.ParenExpr:
		return exprName(x.X)
	}
	return ""
}

type passInfo struct {
	name    string
	args    []string
	lhs     []string
	guarded bool
}

// passesOf lists the calls in the body of fn in source order; a call is guarded when it sits
// inside an if / switch / for / range / select / function literal, or right of a short-circuit
// operator: i.e. when it does not run on every invocation. canon renames identifiers by first
// occurrence (parameters, named results, then body) so that a renaming is not a change.
func passesOf(fn *ast.FuncDecl) (passes []passInfo, returns []string, nparams int) {
	canon := map[string]string{}
	cn := func(id string) string {
		if id == "_" || id == "nil" || id == "true" || id == "false" {
			return id
		}
		if c, ok := canon[id]; ok {
			return c
		}
		c := "v" + strconv.Itoa(len(canon))
		canon[id] = c
		return c
	}
	for _, f := range fn.Type.Params.List {
		for _, n := range f.Names {
			cn(n.Name)
			nparams++
		}
	}
	var named []string
	if fn.Type.Results != nil {
		for _, f := range fn.Type.Results.List {
			for _, n := range f.Names {
				named = append(named, cn(n.Name))
			}
		}
	}
	idents := func(es []ast.Expr) []string {
		var out []string
		for _, e := range es {
			if id, ok := e.(*ast.Ident); ok {
				out = append(out, cn(id.Name))
			} else {
				out = append(out, "#expr")
			}
		}
		return out
	}
	var walk func(n ast.Node, guarded bool, lhs []string)
	walkList := func(ns []ast.Stmt, g bool) {
		for _, s := range ns {
			walk(s, g, nil)
		}
	}
	var lastReturn *ast.ReturnStmt
	walk = func(n ast.Node, g bool, lhs []string) {
		switch x := n.(type) {
		case nil:
		case *ast.BlockStmt:
			walkList(x.List, g)
		case *ast.ExprStmt:
			walk(x.X, g, []string{})
		case *ast.AssignStmt:
			l := idents(x.Lhs)
			for _, r := range x.Rhs {
				walk(r, g, l)
			}
		case *ast.DeclStmt:
			if gd, ok := x.Decl.(*ast.GenDecl); ok {
				for _, sp := range gd.Specs {
					if vs, ok := sp.(*ast.ValueSpec); ok {
						var l []string
						for _, nm := range vs.Names {
							l = append(l, cn(nm.Name))
						}
						for _, v := range vs.Values {
							walk(v, g, l)
						}
					}
				}
			}
		case *ast.ReturnStmt:
			if !g {
				lastReturn = x
			}
			for _, r := range x.Results {
				walk(r, g, []string{"#ret"})
			}
		case *ast.IfStmt:
			walk(x.Init, g, nil)
			walk(x.Cond, g, []string{"#cond"})
			walk(x.Body, true, nil)
			walk(x.Else, true, nil)
		case *ast.ForStmt:
			walk(x.Body, true, nil)
		case *ast.RangeStmt:
			walk(x.X, g, nil)
			walk(x.Body, true, nil)
		case *ast.SwitchStmt:
			walk(x.Init, g, nil)
			walk(x.Tag, g, nil)
			walk(x.Body, true, nil)
		case *ast.TypeSwitchStmt:
			walk(x.Body, true, nil)
		case *ast.SelectStmt:
			walk(x.Body, true, nil)
		case *ast.CaseClause:
			walkList(x.Body, true)
		case *ast.DeferStmt:
			walk(x.Call, true, nil)
		case *ast.GoStmt:
			walk(x.Call, true, nil)
		case *ast.FuncLit:
			walk(x.Body, true, nil)
		case *ast.ParenExpr:
			walk(x.X, g, lhs)
		case *ast.UnaryExpr:
			walk(x.X, g, []string{"#expr"})
		case *ast.BinaryExpr:
			walk(x.X, g, []string{"#expr"})
			walk(x.Y, g || x.Op == token.LAND || x.Op == token.LOR, []string{"#expr"})
		case *ast.CallExpr:
			for _, a := range x.Args {
				walk(a, g, []string{"#arg"})
			}
			if nm := exprName(x.Fun); nm != "" {
				passes = append(passes, passInfo{nm, idents(x.Args), lhs, g})
			} else {
				walk(x.Fun, g, nil)
				passes = append(passes, passInfo{"#call", idents(x.Args), lhs, g})
			}
		}
	}
	walk(fn.Body, false, nil)
	if lastReturn != nil {
		if len(lastReturn.Results) == 0 {
			returns = named
		} else {
			returns = idents(lastReturn.Results)
		}
	}
	return
}

func genSanitizePipeline(repo string) (string, error) {
	_, f, err := parseFile(repo, "pkg/webui/sanitize/html.go")
	if err != nil {
		return "", err
	}
	hf := findFunc(f, "HTML")
	stf := findFunc(f, "styleTagFilter")
	sst := findFunc(f, "sanitizeStyleTags")
	if hf == nil || stf == nil || sst == nil {
		return "", fmt.Errorf("HTML / sanitizeStyleTags / styleTagFilter not found in html.go")
	}
	var b strings.Builder
	b.WriteString(coqHeader("C18: the structure of sanitize.HTML (which passes, in which order, on what, unconditionally?) and the tokenizer methods styleTagFilter uses."))
	emit := func(name string, fn *ast.FuncDecl) {
		passes, rets, np := passesOf(fn)
		var parts []string
		for _, p := range passes {
			parts = append(parts, fmt.Sprintf("(%s (* %s *), %s, %s, %v)", coqStr(p.name), p.name, coqStrList(p.args), coqStrList(p.lhs), p.guarded))
		}
		fmt.Fprintf(&b, "(* %s: calls in source order: (callee, arguments, assigned to, guarded); identifiers renamed v0, v1, ... by first occurrence *)\n", name)
		fmt.Fprintf(&b, "Definition %s_calls : list (list N * list (list N) * list (list N) * bool) :=\n  [%s].\n", name, strings.Join(parts, ";\n   "))
		fmt.Fprintf(&b, "Definition %s_returns : list (list N) := %s.\nDefinition %s_nparams : nat := %d.\n\n", name, coqStrList(rets), name, np)
	}
	emit("html", hf)
	emit("style_tags", sst)
	// methods invoked on the tokenizer inside styleTagFilter, and its constructor
	tokVar, ctor := "", ""
	ast.Inspect(stf, func(n ast.Node) bool {
		if as, ok := n.(*ast.AssignStmt); ok && len(as.Lhs) == 1 && len(as.Rhs) == 1 {
			if c, ok := as.Rhs[0].(*ast.CallExpr); ok {
				if nm := exprName(c.Fun); strings.HasPrefix(nm, "html.NewTokenizer") {
					if id, ok := as.Lhs[0].(*ast.Ident); ok {
						tokVar, ctor = id.Name, nm
					}
				}
			}
		}
		return true
	})
	if tokVar == "" {
		return "", fmt.Errorf("styleTagFilter: no html.NewTokenizer... assignment found")
	}
	ms := map[string]bool{}
	ast.Inspect(stf, func(n ast.Node) bool {
		if se, ok := n.(*ast.SelectorExpr); ok {
			if id, ok := se.X.(*ast.Ident); ok && id.Name == tokVar {
				ms[se.Sel.Name] = true
			}
		}
		return true
	})
	var mlist []string
	for m := range ms {
		mlist = append(mlist, m)
	}
	sort.Strings(mlist)
	fmt.Fprintf(&b, "Definition tokenizer_ctor : list N := %s. (* %s *)\nDefinition tokenizer_methods : list (list N) :=\n  %s. (* %s *)\n\n", coqStr(ctor), ctor, coqStrList(mlist), strings.Join(mlist, " "))
	// the pattern handed to Matching() for the style attribute
	pat := ""
	ast.Inspect(f, func(n ast.Node) bool {
		if vs, ok := n.(*ast.ValueSpec); ok && len(vs.Names) == 1 && vs.Names[0].Name == "cssSafe" && len(vs.Values) == 1 {
			if c, ok := vs.Values[0].(*ast.CallExpr); ok && len(c.Args) == 1 {
				pat, _ = litString(c.Args[0])
			}
		}
		return true
	})
	fmt.Fprintf(&b, "Definition css_safe_pattern : list N := %s. (* %s *)\n", coqStr(pat), strings.ReplaceAll(pat, "*)", "* )"))
	return b.String(), nil
}

// genSanitizePolicy dumps the tables of the bluemonday policy sanitize.HTML applies (read by
// reflection from the real policy object) for the token-level model coq/Model/SanitizePolicy.v.
// The repository is imported, not parsed: the policy is whatever the package builds at init.
func genSanitizePolicy(repo string) (string, error) {
	d, err := c18policy.Read(sanitize.VerifPolicy())
	if err != nil {
		return "", err
	}
	if len(d.Unsupported) > 0 {
		return "", fmt.Errorf("the bluemonday policy uses features the C18 policy model does not cover: %s", strings.Join(d.Unsupported, ", "))
	}
	var b strings.Builder
	b.WriteString(coqHeader("C18: tables of the bluemonday policy (elements, attributes with pattern ids, URL schemes, flags), read by reflection."))
	var fl []string
	for k := range d.Flags {
		fl = append(fl, k)
	}
	sort.Strings(fl)
	for _, k := range fl {
		fmt.Fprintf(&b, "Definition bm_%s : bool := %v.\n", k, d.Flags[k])
	}
	fmt.Fprintf(&b, "\n(* %d distinct attribute value patterns; a pattern is referred to by its index *)\nDefinition bm_npatterns : nat := %d.\n", len(d.Patterns), len(d.Patterns))
	for i, ptn := range d.Patterns {
		fmt.Fprintf(&b, "(* %2d: %s *)\n", i, strings.NewReplacer("*)", "* )", "(*", "( *", "\"", "''").Replace(ptn))
	}
	pol := func(xs []int) string {
		parts := make([]string, len(xs))
		for i, x := range xs {
			if x < 0 {
				parts[i] = "None"
			} else {
				parts[i] = fmt.Sprintf("Some %d%%nat", x)
			}
		}
		return "[" + strings.Join(parts, "; ") + "]"
	}
	attrs := func(m map[string][]int) string {
		var ks []string
		for k := range m {
			ks = append(ks, k)
		}
		sort.Strings(ks)
		parts := make([]string, len(ks))
		for i, k := range ks {
			parts[i] = fmt.Sprintf("(%s (* %s *), %s)", coqStr(k), k, pol(m[k]))
		}
		return "[" + strings.Join(parts, ";\n      ") + "]"
	}
	var els []string
	for k := range d.ElAttrs {
		els = append(els, k)
	}
	sort.Strings(els)
	var parts []string
	for _, el := range els {
		parts = append(parts, fmt.Sprintf("(%s (* %s *),\n     %s)", coqStr(el), el, attrs(d.ElAttrs[el])))
	}
	fmt.Fprintf(&b, "\nDefinition bm_el_attrs : list (list N * list (list N * list (option nat))) :=\n  [%s].\n", strings.Join(parts, ";\n   "))
	fmt.Fprintf(&b, "\nDefinition bm_global_attrs : list (list N * list (option nat)) :=\n  %s.\n", attrs(d.GlobalAttrs))
	fmt.Fprintf(&b, "\nDefinition bm_no_attrs_ok : list (list N) :=\n  %s.\n", coqStrList(d.NoAttrsOK))
	fmt.Fprintf(&b, "\nDefinition bm_skip_content : list (list N) :=\n  %s.\n", coqStrList(d.SkipContent))
	fmt.Fprintf(&b, "\nDefinition bm_url_schemes : list (list N) :=\n  %s.\n", coqStrList(d.Schemes))
	// strings.TrimSpace: the white space runes, as UTF-8
	var sp []string
	for r := rune(0); r <= unicode.MaxRune; r++ {
		if r >= 0xD800 && r <= 0xDFFF {
			continue
		}
		if unicode.IsSpace(r) {
			sp = append(sp, string(r))
		}
	}
	fmt.Fprintf(&b, "\n(* UTF-8 encodings of the runes unicode.IsSpace accepts (strings.TrimSpace in Policy.Sanitize) *)\nDefinition unicode_spaces : list (list N) :=\n  %s.\n", coqStrList(sp))
	return b.String(), nil
}

func coqPairList(ps [][2]string) string {
	parts := make([]string, len(ps))
	for i, p := range ps {
		parts[i] = "(" + coqStr(p[0]) + ", " + coqStr(p[1]) + ")"
	}
	return "[" + strings.Join(parts, ";\n   ") + "]"
}

func escTable(f func(string) string) string {
	var parts []string
	for c := 0; c < 256; c++ {
		in := string([]byte{byte(c)})
		out := f(in)
		if out != in {
			parts = append(parts, fmt.Sprintf("(%d, %s)", c, coqStr(out)))
		}
	}
	return "[" + strings.Join(parts, ";\n   ") + "]"
}

// callsNamed returns the call expressions `pkg.fn(...)` inside a function, in source order.
func callsNamed(d *ast.FuncDecl, pkg, fn string) []*ast.CallExpr {
	var out []*ast.CallExpr
	ast.Inspect(d, func(n ast.Node) bool {
		if c, ok := n.(*ast.CallExpr); ok {
			if s, ok := c.Fun.(*ast.SelectorExpr); ok && s.Sel.Name == fn {
				if id, ok := s.X.(*ast.Ident); ok && id.Name == pkg {
					out = append(out, c)
				}
			}
		}
		return true
	})
	return out
}

func litString(e ast.Expr) (string, bool) {
	bl, ok := e.(*ast.BasicLit)
	if !ok || bl.Kind != token.STRING {
		return "", false
	}
	s, err := strconv.Unquote(bl.Value)
	return s, err == nil
}

func genSanitizeConsts(repo string) (string, error) {
	var b strings.Builder
	b.WriteString(coqHeader("C18: CSS property allow-list, gorilla/css token kinds, escape tables, TextToHTML literals."))

	// --- allow-list
	_, f, err := parseFile(repo, "pkg/webui/sanitize/css.go")
	if err != nil {
		return "", err
	}
	var props []string
	found, badElt := false, false
	ast.Inspect(f, func(n ast.Node) bool {
		vs, ok := n.(*ast.ValueSpec)
		if !ok || len(vs.Names) != 1 || vs.Names[0].Name != "allowedProperties" || len(vs.Values) != 1 {
			return true
		}
		cl, ok := vs.Values[0].(*ast.CompositeLit)
		if !ok {
			return true
		}
		found = true
		// a map literal keyed by the property names (any value type), or a slice/array of them
		for _, e := range cl.Elts {
			if kv, ok := e.(*ast.KeyValueExpr); ok {
				if s, ok := litString(kv.Key); ok {
					if id, isIdent := kv.Value.(*ast.Ident); isIdent && id.Name == "false" {
						continue // map[string]bool entry switched off
					}
					props = append(props, s)
				} else {
					badElt = true
				}
			} else if s, ok := litString(e); ok {
				props = append(props, s)
			} else {
				badElt = true
			}
		}
		return false
	})
	if !found {
		return "", fmt.Errorf("allowedProperties literal (map keyed by property name, or list of names) not found in css.go")
	}
	if badElt {
		return "", fmt.Errorf("allowedProperties holds an entry that is not a string literal")
	}
	sort.Strings(props)
	fmt.Fprintf(&b, "Definition allowed_properties : list (list N) :=\n  %s.\n\n", coqStrList(props))

	// --- token kinds
	kinds := []struct {
		name string
		v    int
	}{
		{"tok_error", int(scanner.TokenError)}, {"tok_eof", int(scanner.TokenEOF)},
		{"tok_ident", int(scanner.TokenIdent)}, {"tok_s", int(scanner.TokenS)},
		{"tok_comment", int(scanner.TokenComment)}, {"tok_char", int(scanner.TokenChar)},
	}
	for _, k := range kinds {
		fmt.Fprintf(&b, "Definition %s : N := %d.\n", k.name, k.v)
	}
	var names []string
	tt := scanner.TokenError
	for t := int(scanner.TokenError); t <= int(scanner.TokenBOM); t++ {
		names = append(names, fmt.Sprintf("(%d, %s)", t, coqStr(tt.String())))
		tt++
	}
	fmt.Fprintf(&b, "Definition tok_names : list (N * list N) :=\n  [%s].\n\n", strings.Join(names, ";\n   "))

	// --- escapes (obtained by running the functions on every single byte)
	fmt.Fprintf(&b, "(* golang.org/x/net/html.EscapeString, used by styleTagFilter *)\nDefinition esc_x : list (N * list N) :=\n  %s.\n\n", escTable(xhtml.EscapeString))
	fmt.Fprintf(&b, "(* html.EscapeString of the standard library, used by TextToHTML *)\nDefinition esc_std : list (N * list N) :=\n  %s.\n\n", escTable(stdhtml.EscapeString))

	// --- runes outside ASCII that unicode.ToLower maps into ASCII
	var low []string
	for r := rune(0x80); r <= unicode.MaxRune; r++ {
		if r >= 0xD800 && r <= 0xDFFF {
			continue
		}
		l := unicode.ToLower(r)
		if l < 0x80 {
			low = append(low, fmt.Sprintf("(%s, %d)", coqStr(string(r)), l))
		}
	}
	fmt.Fprintf(&b, "(* UTF-8 encodings of the non-ASCII runes unicode.ToLower maps to an ASCII byte *)\nDefinition lower_to_ascii : list (list N * N) :=\n  [%s].\n\n", strings.Join(low, "; "))

	// --- TextToHTML / WrapURL literals
	_, h, err := parseFile(repo, "pkg/server/web/helpers.go")
	if err != nil {
		return "", err
	}
	wrap := findFunc(h, "WrapURL")
	t2h := findFunc(h, "TextToHTML")
	if wrap == nil || t2h == nil {
		return "", fmt.Errorf("WrapURL / TextToHTML not found in helpers.go")
	}
	// the anchor: either fmt.Sprintf("pre%smid%spost", a, b) or the concatenation pre + a + mid + b + post
	var parts []string
	var a1, a2 *ast.Ident
	if sp := callsNamed(wrap, "fmt", "Sprintf"); len(sp) == 1 && len(sp[0].Args) == 3 {
		format, ok := litString(sp[0].Args[0])
		if !ok {
			return "", fmt.Errorf("WrapURL: format is not a literal")
		}
		parts = strings.Split(format, "%s")
		if len(parts) != 3 || strings.Contains(strings.Join(parts, ""), "%") {
			return "", fmt.Errorf("WrapURL: format %q is not of the shape pre %%s mid %%s post", format)
		}
		a1, _ = sp[0].Args[1].(*ast.Ident)
		a2, _ = sp[0].Args[2].(*ast.Ident)
	} else if len(sp) == 0 {
		var ret *ast.ReturnStmt
		nret := 0
		ast.Inspect(wrap, func(n ast.Node) bool {
			if r, ok := n.(*ast.ReturnStmt); ok {
				ret = r
				nret++
			}
			return true
		})
		if nret != 1 || len(ret.Results) != 1 {
			return "", fmt.Errorf("WrapURL: expected one fmt.Sprintf(format, a, b) or one return of a concatenation")
		}
		var ops []ast.Expr
		var flat func(e ast.Expr) bool
		flat = func(e ast.Expr) bool {
			switch x := e.(type) {
			case *ast.ParenExpr:
				return flat(x.X)
			case *ast.BinaryExpr:
				return x.Op == token.ADD && flat(x.X) && flat(x.Y)
			default:
				ops = append(ops, e)
				return true
			}
		}
		if !flat(ret.Results[0]) || len(ops) != 5 {
			return "", fmt.Errorf("WrapURL: the returned expression is not pre + a + mid + b + post")
		}
		for _, i := range []int{0, 2, 4} {
			l, ok := litString(ops[i])
			if !ok {
				return "", fmt.Errorf("WrapURL: operand %d of the concatenation is not a literal", i)
			}
			parts = append(parts, l)
		}
		a1, _ = ops[1].(*ast.Ident)
		a2, _ = ops[3].(*ast.Ident)
	} else {
		return "", fmt.Errorf("WrapURL: expected one fmt.Sprintf(format, a, b)")
	}
	if a1 == nil || a2 == nil || len(wrap.Type.Params.List) != 1 || len(wrap.Type.Params.List[0].Names) != 1 {
		return "", fmt.Errorf("WrapURL: unexpected argument shape")
	}
	param := wrap.Type.Params.List[0].Names[0].Name
	// wrap_first_raw = 1: the first %s receives the parameter itself, 0: the "&amp;"-replaced copy
	firstRaw, secondRaw := 0, 0
	if a1.Name == param {
		firstRaw = 1
	}
	if a2.Name == param {
		secondRaw = 1
	}
	// strings.ReplaceAll(x, old, new) or the equivalent strings.Replace(x, old, new, -1)
	ra := callsNamed(wrap, "strings", "ReplaceAll")
	if len(ra) == 0 {
		for _, c := range callsNamed(wrap, "strings", "Replace") {
			if len(c.Args) == 4 {
				if u, ok := c.Args[3].(*ast.UnaryExpr); ok && u.Op == token.SUB {
					if bl, ok := u.X.(*ast.BasicLit); ok && bl.Kind == token.INT && bl.Value == "1" {
						c2 := *c
						c2.Args = c.Args[:3]
						ra = append(ra, &c2)
					}
				}
			}
		}
	}
	if len(ra) != 1 || len(ra[0].Args) != 3 {
		return "", fmt.Errorf("WrapURL: expected one strings.ReplaceAll (or strings.Replace with n = -1)")
	}
	ampOld, okA := litString(ra[0].Args[1])
	ampNew, okB := litString(ra[0].Args[2])
	if !okA || !okB {
		return "", fmt.Errorf("WrapURL: ReplaceAll arguments are not literals")
	}
	fmt.Fprintf(&b, "Definition wrap_pre : list N := %s.\nDefinition wrap_mid : list N := %s.\nDefinition wrap_post : list N := %s.\n", coqStr(parts[0]), coqStr(parts[1]), coqStr(parts[2]))
	fmt.Fprintf(&b, "Definition wrap_first_raw : bool := %v.\nDefinition wrap_second_raw : bool := %v.\n", firstRaw == 1, secondRaw == 1)
	fmt.Fprintf(&b, "Definition wrap_amp_old : list N := %s.\nDefinition wrap_amp_new : list N := %s.\n\n", coqStr(ampOld), coqStr(ampNew))
	nr := callsNamed(t2h, "strings", "NewReplacer")
	if len(nr) == 0 {
		// the replacer may be built once at package level: accept it when it is the only one of the file
		// and TextToHTML calls <that variable>.Replace
		for _, d := range h.Decls {
			gd, ok := d.(*ast.GenDecl)
			if !ok || gd.Tok != token.VAR {
				continue
			}
			for _, sp := range gd.Specs {
				vs, ok := sp.(*ast.ValueSpec)
				if !ok || len(vs.Names) != 1 || len(vs.Values) != 1 {
					continue
				}
				c, ok := vs.Values[0].(*ast.CallExpr)
				if !ok {
					continue
				}
				if se, ok := c.Fun.(*ast.SelectorExpr); ok && se.Sel.Name == "NewReplacer" {
					if id, ok := se.X.(*ast.Ident); ok && id.Name == "strings" && len(callsNamed(t2h, vs.Names[0].Name, "Replace")) == 1 {
						nr = append(nr, c)
					}
				}
			}
		}
	}
	if len(nr) != 1 || len(nr[0].Args)%2 != 0 {
		return "", fmt.Errorf("TextToHTML: expected one strings.NewReplacer with an even number of arguments")
	}
	var pairs [][2]string
	for i := 0; i+1 < len(nr[0].Args); i += 2 {
		o, ok1 := litString(nr[0].Args[i])
		n, ok2 := litString(nr[0].Args[i+1])
		if !ok1 || !ok2 {
			return "", fmt.Errorf("TextToHTML: replacer arguments are not literals")
		}
		pairs = append(pairs, [2]string{o, n})
	}
	fmt.Fprintf(&b, "Definition line_pairs : list (list N * list N) :=\n  %s.\n", coqPairList(pairs))
	return b.String(), nil
}

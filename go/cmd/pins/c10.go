package main

// C10 shares the fingerprints registered in c11.go (same modelled functions); additionally the
// constructor, which must keep no state but the path and the cap, and the directory hash.
func init() {
	fpRegister("pkg/storage/file/fstore.go", "New", "getMailPath")
	fpRegister("pkg/stringutil/utils.go", "HashMailboxName")
}

package main

import (
	"fmt"
	"go/ast"
	"go/token"
	"strings"
)

// C15: the STRUCTURE of the hub and of the socket listeners, read from the source as small programs:
// which container holds the listeners, what each hub operation's closure does in which order (history write,
// ring delete, broadcast with/without drop-on-error, replay, register, unregister), the arms of the selects in
// Start / enqueue / Sync / the listeners' enqueue, and the order of the two statements of the listeners' Close.
// Proofs/HubShape.v proves that the model's exec_op IS the interpretation of these programs.
func init() { register("HubShape.v", genHubShape) }

func exprStr(e ast.Expr) string {
	switch x := e.(type) {
	case *ast.Ident:
		return x.Name
	case *ast.SelectorExpr:
		return exprStr(x.X) + "." + x.Sel.Name
	case *ast.CallExpr:
		return exprStr(x.Fun) + "()"
	case *ast.StarExpr:
		return "*" + exprStr(x.X)
	case *ast.UnaryExpr:
		return x.Op.String() + exprStr(x.X)
	case *ast.IndexExpr:
		return exprStr(x.X) + "[" + exprStr(x.Index) + "]"
	case *ast.BinaryExpr:
		return exprStr(x.X) + x.Op.String() + exprStr(x.Y)
	case *ast.CompositeLit:
		return "lit"
	case *ast.BasicLit:
		return x.Value
	}
	return "?"
}

// closureOf returns the body of the func literal passed to hub.enqueue inside a method.
func closureOf(d *ast.FuncDecl) *ast.BlockStmt {
	var body *ast.BlockStmt
	ast.Inspect(d, func(n ast.Node) bool {
		if body != nil {
			return false
		}
		if ce, ok := n.(*ast.CallExpr); ok && strings.HasSuffix(exprStr(ce.Fun), ".enqueue") && len(ce.Args) == 1 {
			if fl, ok := ce.Args[0].(*ast.FuncLit); ok {
				body = fl.Body
			}
		}
		return true
	})
	return body
}

func containsCall(n ast.Node, suffix string) bool {
	found := false
	ast.Inspect(n, func(x ast.Node) bool {
		if ce, ok := x.(*ast.CallExpr); ok && strings.HasSuffix(exprStr(ce.Fun), suffix) {
			found = true
		}
		return !found
	})
	return found
}

func containsDelete(n ast.Node, target string) bool {
	found := false
	ast.Inspect(n, func(x ast.Node) bool {
		if ce, ok := x.(*ast.CallExpr); ok {
			if id, ok := ce.Fun.(*ast.Ident); ok && id.Name == "delete" && len(ce.Args) == 2 && exprStr(ce.Args[0]) == target {
				found = true
			}
		}
		return !found
	})
	return found
}

// stmtShape abstracts one statement of a hub op closure.
func stmtShape(st ast.Stmt) []string {
	switch s := st.(type) {
	case *ast.IfStmt:
		// if h.history != nil { h.history.Value = msg; h.history = h.history.Next() }
		if exprStr(s.Cond) == "h.history!=nil" && len(s.Body.List) == 2 && s.Else == nil {
			a, ok1 := s.Body.List[0].(*ast.AssignStmt)
			b, ok2 := s.Body.List[1].(*ast.AssignStmt)
			if ok1 && ok2 && exprStr(a.Lhs[0]) == "h.history.Value" && exprStr(b.Lhs[0]) == "h.history" && exprStr(b.Rhs[0]) == "h.history.Next()" {
				return []string{"PHistWrite true"}
			}
		}
	case *ast.AssignStmt:
		if len(s.Lhs) == 1 && exprStr(s.Lhs[0]) == "h.listeners[l]" {
			return []string{"PRegister"}
		}
		// p := h.history / end := p : preparation of the ring walk, folded into PRingDel
		if len(s.Lhs) == 1 && (exprStr(s.Lhs[0]) == "p" || exprStr(s.Lhs[0]) == "end") && s.Tok == token.DEFINE {
			return []string{}
		}
	case *ast.ForStmt:
		// the ring walk of Delete: blanks the first matching slot
		blank := false
		ast.Inspect(s, func(x ast.Node) bool {
			if a, ok := x.(*ast.AssignStmt); ok && len(a.Lhs) == 1 && exprStr(a.Lhs[0]) == "p.Next().Value" && exprStr(a.Rhs[0]) == "nil" {
				blank = true
			}
			return true
		})
		if blank && exprStr(s.Cond) == "p!=nil" {
			return []string{"PRingDel"}
		}
	case *ast.RangeStmt:
		if exprStr(s.X) == "h.listeners" && s.Key != nil && s.Value == nil && len(s.Body.List) == 1 {
			if is, ok := s.Body.List[0].(*ast.IfStmt); ok && is.Init != nil && exprStr(is.Cond) == "err!=nil" {
				drop := containsDelete(is.Body, "h.listeners") && len(is.Body.List) == 1
				switch {
				case containsCall(is.Init, "l.Receive"):
					return []string{fmt.Sprintf("PBroadcast false %s", coqBool(drop))}
				case containsCall(is.Init, "l.Delete"):
					return []string{fmt.Sprintf("PBroadcast true %s", coqBool(drop))}
				}
			}
		}
	case *ast.ExprStmt:
		ce, ok := s.X.(*ast.CallExpr)
		if !ok {
			break
		}
		switch {
		case exprStr(ce.Fun) == "h.history.Do" && len(ce.Args) == 1:
			// h.history.Do(func(v) { if v != nil { _ = l.Receive(v.(…)) } })
			ignored := false
			ast.Inspect(ce.Args[0], func(x ast.Node) bool {
				if a, ok := x.(*ast.AssignStmt); ok && len(a.Lhs) == 1 && exprStr(a.Lhs[0]) == "_" && containsCall(a, "l.Receive") {
					ignored = true
				}
				return true
			})
			if containsCall(ce.Args[0], "l.Receive") {
				return []string{"PReplay " + coqBool(ignored)}
			}
		case exprStr(ce.Fun) == "delete" && len(ce.Args) == 2 && exprStr(ce.Args[0]) == "h.listeners":
			return []string{"PUnregister"}
		case exprStr(ce.Fun) == "close" && len(ce.Args) == 1 && exprStr(ce.Args[0]) == "done":
			return []string{"PCloseSync"}
		}
	}
	return []string{"PUnknown"}
}

func progOf(f *ast.File, method string) string {
	d := findFunc(f, method)
	if d == nil {
		return "[PUnknown]"
	}
	body := closureOf(d)
	if body == nil {
		return "[PUnknown]"
	}
	var out []string
	for _, st := range body.List {
		out = append(out, stmtShape(st)...)
	}
	return "[" + strings.Join(out, "; ") + "]"
}

// armsOf abstracts the arms of the first select statement of a function.
func armsOf(d *ast.FuncDecl, classify func(comm string, body []ast.Stmt) string) string {
	if d == nil {
		return "[ArmUnknown]"
	}
	var sel *ast.SelectStmt
	ast.Inspect(d, func(n ast.Node) bool {
		if sel == nil {
			if s, ok := n.(*ast.SelectStmt); ok {
				sel = s
			}
		}
		return sel == nil
	})
	if sel == nil {
		return "[ArmUnknown]"
	}
	var out []string
	for _, c := range sel.Body.List {
		cc := c.(*ast.CommClause)
		comm := "default"
		switch x := cc.Comm.(type) {
		case *ast.SendStmt:
			comm = "send " + exprStr(x.Chan)
		case *ast.ExprStmt:
			comm = "recv " + exprStr(x.X)
		case *ast.AssignStmt:
			comm = "recv " + exprStr(x.Rhs[0])
		}
		out = append(out, classify(comm, cc.Body))
	}
	return "[" + strings.Join(out, "; ") + "]"
}

func bodyCalls(body []ast.Stmt) string {
	var xs []string
	for _, st := range body {
		switch s := st.(type) {
		case *ast.ExprStmt:
			xs = append(xs, exprStr(s.X))
		case *ast.ReturnStmt:
			if len(s.Results) == 0 {
				xs = append(xs, "return")
			} else {
				xs = append(xs, "return "+exprStr(s.Results[0]))
			}
		default:
			xs = append(xs, "?")
		}
	}
	return strings.Join(xs, ";")
}

func genHubShape(repo string) (string, error) {
	_, hubf, err := parseFile(repo, "pkg/msghub/hub.go")
	if err != nil {
		return "", err
	}
	// container of Hub.listeners
	container := "COther"
	for _, d := range hubf.Decls {
		gd, ok := d.(*ast.GenDecl)
		if !ok || gd.Tok != token.TYPE {
			continue
		}
		for _, sp := range gd.Specs {
			ts := sp.(*ast.TypeSpec)
			st, ok := ts.Type.(*ast.StructType)
			if ts.Name.Name != "Hub" || !ok {
				continue
			}
			for _, fl := range st.Fields.List {
				for _, n := range fl.Names {
					if n.Name == "listeners" {
						switch t := fl.Type.(type) {
						case *ast.MapType:
							if exprStr(t.Key) == "Listener" {
								container = "CMap"
							}
						case *ast.ArrayType:
							container = "CSlice"
						}
					}
				}
			}
		}
	}
	s := coqHeader("Structure of pkg/msghub/hub.go (container of the listeners, the hub operations as small programs, select arms) and of the socket listeners' enqueue / Close in pkg/rest/socketv1_controller.go, socketv2_controller.go.")
	s += "Inductive container := CMap | CSlice | COther.\n"
	s += "(* PBroadcast del drop: range over the listeners calling Delete (del) or Receive, unregistering on error (drop) *)\n"
	s += "Inductive hstmt := PHistWrite (guarded : bool) | PRingDel | PBroadcast (del drop : bool) | PReplay (errors_ignored : bool)\n  | PRegister | PUnregister | PCloseSync | PUnknown.\n"
	s += "Inductive arm := ArmCtxDoneStop | ArmOpRun | ArmSendOp | ArmDoneGiveUp | ArmSyncRan | ArmQueueSendOk | ArmListenerDoneError | ArmUnknown.\n"
	s += "Inductive cstmt := CCloseDone | CRemoveListener | CUnknown.\n\n"
	s += "Definition listeners_container : container := " + container + ".\n"
	s += "Definition dispatch_prog : list hstmt := " + progOf(hubf, "Hub.Dispatch") + ".\n"
	s += "Definition delete_prog : list hstmt := " + progOf(hubf, "Hub.Delete") + ".\n"
	s += "Definition add_prog : list hstmt := " + progOf(hubf, "Hub.AddListener") + ".\n"
	s += "Definition remove_prog : list hstmt := " + progOf(hubf, "Hub.RemoveListener") + ".\n"
	s += "Definition sync_prog : list hstmt := " + progOf(hubf, "Hub.Sync") + ".\n"
	s += "Definition start_arms : list arm := " + armsOf(findFunc(hubf, "Hub.Start"), func(comm string, body []ast.Stmt) string {
		switch {
		case comm == "recv <-ctx.Done()" && bodyCalls(body) == "close();return":
			return "ArmCtxDoneStop"
		case comm == "recv <-hub.opChan" && bodyCalls(body) == "hub.runOp()":
			return "ArmOpRun"
		}
		return "ArmUnknown"
	}) + ".\n"
	s += "Definition enqueue_arms : list arm := " + armsOf(findFunc(hubf, "Hub.enqueue"), func(comm string, body []ast.Stmt) string {
		switch {
		case comm == "send hub.opChan" && len(body) == 0:
			return "ArmSendOp"
		case comm == "recv <-hub.done" && len(body) == 0:
			return "ArmDoneGiveUp"
		}
		return "ArmUnknown"
	}) + ".\n"
	s += "Definition sync_arms : list arm := " + armsOf(findFunc(hubf, "Hub.Sync"), func(comm string, body []ast.Stmt) string {
		switch {
		case comm == "recv <-done" && len(body) == 0:
			return "ArmSyncRan"
		case comm == "recv <-hub.done" && len(body) == 0:
			return "ArmDoneGiveUp"
		}
		return "ArmUnknown"
	}) + ".\n"
	for _, x := range [][3]string{{"pkg/rest/socketv1_controller.go", "msgListenerV1", "v1"}, {"pkg/rest/socketv2_controller.go", "msgListenerV2", "v2"}} {
		_, f, err := parseFile(repo, x[0])
		if err != nil {
			return "", err
		}
		s += "Definition " + x[2] + "_enqueue_arms : list arm := " + armsOf(findFunc(f, x[1]+".enqueue"), func(comm string, body []ast.Stmt) string {
			switch {
			case comm == "send ml.c" && bodyCalls(body) == "return nil":
				return "ArmQueueSendOk"
			case comm == "recv <-ml.done" && strings.HasPrefix(bodyCalls(body), "return errors.New"):
				return "ArmListenerDoneError"
			}
			return "ArmUnknown"
		}) + ".\n"
		// Close: ml.once.Do(func() { close(ml.done); ml.hub.RemoveListener(ml) })
		cl := "[CUnknown]"
		if d := findFunc(f, x[1]+".Close"); d != nil && len(d.Body.List) == 1 {
			if es, ok := d.Body.List[0].(*ast.ExprStmt); ok {
				if ce, ok := es.X.(*ast.CallExpr); ok && exprStr(ce.Fun) == "ml.once.Do" && len(ce.Args) == 1 {
					if fl, ok := ce.Args[0].(*ast.FuncLit); ok {
						var xs []string
						for _, st := range fl.Body.List {
							switch bodyCalls([]ast.Stmt{st}) {
							case "close()":
								xs = append(xs, "CCloseDone")
							case "ml.hub.RemoveListener()":
								xs = append(xs, "CRemoveListener")
							default:
								xs = append(xs, "CUnknown")
							}
						}
						cl = "[" + strings.Join(xs, "; ") + "]"
					}
				}
			}
		}
		s += "Definition " + x[2] + "_close : list cstmt := " + cl + ".\n"
	}
	return s, nil
}

package main

import (
	"fmt"
	"go/ast"
	"strings"
)

// C15: the socket writers (WSWriter of the v1 and v2 listeners): the arms of their select — on done: one close
// frame and return; on an event from the queue: a write deadline and exactly ONE write of exactly that event, return
// on error; on the ticker: a write deadline and one ping, return on error —, the deferred Close, the reader's deferred
// Close, and the timing constants.
func init() { register("HubWriter.v", genHubWriter) }

// writeCalls lists the conn.Write* / NextWriter calls of a statement list, in order, with their argument.
func writeCalls(body []ast.Stmt) []string {
	var out []string
	for _, st := range body {
		ast.Inspect(st, func(n ast.Node) bool {
			if ce, ok := n.(*ast.CallExpr); ok {
				f := exprStr(ce.Fun)
				if strings.HasPrefix(f, "conn.Write") || f == "conn.NextWriter" {
					arg := ""
					if len(ce.Args) > 0 {
						arg = exprStr(ce.Args[0])
					}
					out = append(out, f+"("+arg+")")
				}
			}
			return true
		})
	}
	return out
}

func hasLoop(body []ast.Stmt) bool {
	found := false
	for _, st := range body {
		ast.Inspect(st, func(n ast.Node) bool {
			switch n.(type) {
			case *ast.ForStmt, *ast.RangeStmt:
				found = true
			}
			return !found
		})
	}
	return found
}

func setsDeadline(body []ast.Stmt) bool {
	found := false
	for _, st := range body {
		ast.Inspect(st, func(n ast.Node) bool {
			if ce, ok := n.(*ast.CallExpr); ok && exprStr(ce.Fun) == "conn.SetWriteDeadline" {
				found = true
			}
			return !found
		})
	}
	return found
}

func returnsOnError(body []ast.Stmt) bool {
	// if conn.WriteX(...) != nil { return }
	for _, st := range body {
		if is, ok := st.(*ast.IfStmt); ok {
			if be, ok := is.Cond.(*ast.BinaryExpr); ok && strings.HasPrefix(exprStr(be.X), "conn.Write") && exprStr(be.Y) == "nil" {
				for _, b := range is.Body.List {
					if _, ok := b.(*ast.ReturnStmt); ok {
						return true
					}
				}
			}
		}
	}
	return false
}

func endsWithReturn(body []ast.Stmt) bool {
	if len(body) == 0 {
		return false
	}
	_, ok := body[len(body)-1].(*ast.ReturnStmt)
	return ok
}

func genHubWriter(repo string) (string, error) {
	s := coqHeader("Structure of the socket writers (WSWriter) and readers (WSReader) of pkg/rest/socketv1_controller.go, socketv2_controller.go and their timing constants (seconds).")
	s += "Inductive warm := WDoneCloseFrameReturn | WEventOneWriteOfIt (deadline on_error_return : bool) | WTickPing (deadline on_error_return : bool) | WUnknown.\n\n"
	for _, x := range [][4]string{{"pkg/rest/socketv1_controller.go", "msgListenerV1", "v1", "V1"}, {"pkg/rest/socketv2_controller.go", "msgListenerV2", "v2", "V2"}} {
		_, f, err := parseFile(repo, x[0])
		if err != nil {
			return "", err
		}
		w := findFunc(f, x[1]+".WSWriter")
		arms := armsOf(w, func(comm string, body []ast.Stmt) string {
			wc := writeCalls(body)
			switch {
			case comm == "recv <-ml.done":
				if len(wc) == 1 && wc[0] == "conn.WriteMessage(websocket.CloseMessage)" && endsWithReturn(body) && !hasLoop(body) {
					return "WDoneCloseFrameReturn"
				}
			case comm == "recv <-ml.c":
				// exactly one write, of the received value itself (v2: the event; v1: its header), no loop
				okArg := len(wc) == 1 && (wc[0] == "conn.WriteJSON(event)" || wc[0] == "conn.WriteJSON(metadataToHeader())")
				if okArg && !hasLoop(body) {
					return fmt.Sprintf("WEventOneWriteOfIt %s %s", coqBool(setsDeadline(body)), coqBool(returnsOnError(body)))
				}
			case comm == "recv <-ticker.C":
				if len(wc) == 1 && wc[0] == "conn.WriteMessage(websocket.PingMessage)" && !hasLoop(body) {
					return fmt.Sprintf("WTickPing %s %s", coqBool(setsDeadline(body)), coqBool(returnsOnError(body)))
				}
			}
			return "WUnknown"
		})
		s += "Definition " + x[2] + "_writer_arms : list warm := " + arms + ".\n"
		// deferred Close of writer and reader
		deferClose := func(d *ast.FuncDecl) bool {
			if d == nil {
				return false
			}
			found := false
			for _, st := range d.Body.List {
				if ds, ok := st.(*ast.DeferStmt); ok {
					ast.Inspect(ds, func(n ast.Node) bool {
						if ce, ok := n.(*ast.CallExpr); ok && exprStr(ce.Fun) == "ml.Close" {
							found = true
						}
						return !found
					})
				}
			}
			return found
		}
		s += "Definition " + x[2] + "_writer_defers_close : bool := " + coqBool(deferClose(w)) + ".\n"
		s += "Definition " + x[2] + "_reader_defers_close : bool := " + coqBool(deferClose(findFunc(f, x[1]+".WSReader"))) + ".\n"
		// constants: writeWait = N * time.Second, pongWait = N * time.Second, pingPeriod = (pongWait * a) / b
		consts := map[string]string{}
		ast.Inspect(f, func(n ast.Node) bool {
			if vs, ok := n.(*ast.ValueSpec); ok {
				for i, nm := range vs.Names {
					if i < len(vs.Values) {
						consts[nm.Name] = exprStr(vs.Values[i])
					}
				}
			}
			return true
		})
		secs := func(name string) string {
			v := consts[name+x[3]]
			if strings.HasSuffix(v, "*time.Second") {
				return strings.TrimSuffix(v, "*time.Second") + "%nat"
			}
			return "0%nat (* unreadable: " + v + " *)"
		}
		s += "Definition " + x[2] + "_write_wait_s : nat := " + secs("writeWait") + ".\n"
		s += "Definition " + x[2] + "_pong_wait_s : nat := " + secs("pongWait") + ".\n"
		pp := consts["pingPeriod"+x[3]]
		num, den := "0", "1"
		if strings.HasPrefix(pp, "?") || true {
			// (pongWait * 9) / 10 prints as "?" for the parenthesised part: read the literals instead
			ast.Inspect(f, func(n ast.Node) bool {
				if vs, ok := n.(*ast.ValueSpec); ok && len(vs.Names) == 1 && vs.Names[0].Name == "pingPeriod"+x[3] && len(vs.Values) == 1 {
					if be, ok := vs.Values[0].(*ast.BinaryExpr); ok {
						den = exprStr(be.Y)
						if pe, ok := be.X.(*ast.ParenExpr); ok {
							if ie, ok := pe.X.(*ast.BinaryExpr); ok && exprStr(ie.X) == "pongWait"+x[3] {
								num = exprStr(ie.Y)
							}
						}
					}
				}
				return true
			})
		}
		s += "Definition " + x[2] + "_ping_period_num : nat := " + num + "%nat.\n"
		s += "Definition " + x[2] + "_ping_period_den : nat := " + den + "%nat.\n"
	}
	return s, nil
}

package main

// C05 (and the defaults the SMTP streams rely on): what config.Process lower-cases (the arguments of its
// stringutil.SliceToLower calls, in order), the defaults of config.SMTP (struct tags), and which fields of the SMTP
// configuration each of the three policy predicates reads (pkg/policy/address.go). Proofs/ConfigPins.v ties the policy
// model's configuration record to these.

import (
	"fmt"
	"go/ast"
	"reflect"
	"sort"
	"strconv"
	"strings"
)

func init() { register("ConfigPins.v", genConfigPins) }

// smtpFieldsRead: the set of X in selector chains `….SMTP.X` inside the function body, sorted.
func smtpFieldsRead(body ast.Node) []string {
	set := map[string]bool{}
	ast.Inspect(body, func(n ast.Node) bool {
		se, ok := n.(*ast.SelectorExpr)
		if !ok {
			return true
		}
		if inner, ok := se.X.(*ast.SelectorExpr); ok && inner.Sel.Name == "SMTP" {
			set[se.Sel.Name] = true
		}
		return true
	})
	var out []string
	for k := range set {
		out = append(out, k)
	}
	sort.Strings(out)
	return out
}

func genConfigPins(repo string) (string, error) {
	fset, f, err := parseFile(repo, "pkg/config/config.go")
	if err != nil {
		return "", err
	}
	proc := findFunc(f, "Process")
	if proc == nil {
		return "", fmt.Errorf("config.Process not found")
	}
	var lowered []string
	ast.Inspect(proc.Body, func(n ast.Node) bool {
		c, ok := n.(*ast.CallExpr)
		if !ok {
			return true
		}
		if se, ok := c.Fun.(*ast.SelectorExpr); ok && se.Sel.Name == "SliceToLower" && len(c.Args) == 1 {
			lowered = append(lowered, exprText(fset, c.Args[0]))
		}
		return true
	})
	if len(lowered) == 0 {
		return "", fmt.Errorf("config.Process: no SliceToLower call found")
	}
	// defaults of config.SMTP
	type fd struct{ name, def string }
	var defs []fd
	found := false
	ast.Inspect(f, func(n ast.Node) bool {
		ts, ok := n.(*ast.TypeSpec)
		if !ok || ts.Name.Name != "SMTP" {
			return true
		}
		st, ok := ts.Type.(*ast.StructType)
		if !ok {
			return true
		}
		found = true
		for _, fl := range st.Fields.List {
			tag := ""
			if fl.Tag != nil {
				if s, err := strconv.Unquote(fl.Tag.Value); err == nil {
					tag = reflect.StructTag(s).Get("default")
				}
			}
			for _, nm := range fl.Names {
				defs = append(defs, fd{nm.Name, tag})
			}
		}
		return false
	})
	if !found {
		return "", fmt.Errorf("type SMTP struct not found in config.go")
	}
	_, pf, err := parseFile(repo, "pkg/policy/address.go")
	if err != nil {
		return "", err
	}
	var b strings.Builder
	b.WriteString(coqHeader("C05: what config.Process lower-cases, the defaults of config.SMTP, the configuration fields each policy predicate reads."))
	fmt.Fprintf(&b, "(* %s *)\nDefinition lowercased_config_lists : list (list N) :=\n  %s%%N.\n\n", strings.Join(lowered, ", "), coqStrList(lowered))
	b.WriteString("(* config.SMTP: field, default tag (empty: none) *)\nDefinition smtp_defaults : list (list N * list N) :=\n  [")
	for i, d := range defs {
		if i > 0 {
			b.WriteString(";\n   ")
		}
		fmt.Fprintf(&b, "(%s, %s) (* %s = %q *)", coqStr(d.name), coqStr(d.def), d.name, d.def)
	}
	b.WriteString("]%N.\n\n")
	for _, d := range defs {
		if d.name == "Domain" {
			fmt.Fprintf(&b, "Definition smtp_domain_default : list N := %s%%N.\n\n", coqStr(d.def))
		}
	}
	b.WriteString("(* policy predicate, the SMTP configuration fields it reads *)\nDefinition policy_reads : list (list N * list (list N)) :=\n  [")
	for i, fn := range []string{"Addressing.ShouldAcceptDomain", "Addressing.ShouldStoreDomain", "Addressing.ShouldAcceptOriginDomain"} {
		d := findFunc(pf, fn)
		if d == nil {
			return "", fmt.Errorf("%s not found", fn)
		}
		if i > 0 {
			b.WriteString(";\n   ")
		}
		reads := smtpFieldsRead(d.Body)
		fmt.Fprintf(&b, "(* %s: %s *)\n   (%s,\n    %s)", fn, strings.Join(reads, " "), coqStr(strings.TrimPrefix(fn, "Addressing.")), strings.ReplaceAll(coqStrList(reads), "\n   ", "\n     "))
	}
	b.WriteString("]%N.\n")
	return b.String(), nil
}

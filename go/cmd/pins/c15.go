package main

import (
	"fmt"
	"go/ast"
	"go/token"
	"strconv"
)

// C15: capacities of the hub's op queue and of the v1/v2 listener queues, read from the
// source; fingerprints of the modelled functions.
func init() {
	fpRegister("pkg/msghub/hub.go", "New", "Hub.Start", "Hub.Dispatch", "Hub.Delete", "Hub.AddListener",
		"Hub.RemoveListener", "Hub.Sync", "Hub.enqueue", "Hub.runOp")
	fpRegister("pkg/rest/socketv1_controller.go", "newMsgListenerV1", "msgListenerV1.Receive", "msgListenerV1.Delete",
		"msgListenerV1.Close", "msgListenerV1.enqueue", "msgListenerV1.WSWriter")
	fpRegister("pkg/rest/socketv2_controller.go", "newMsgListenerV2", "msgListenerV2.Receive", "msgListenerV2.Delete",
		"msgListenerV2.Close", "msgListenerV2.enqueue", "msgListenerV2.WSWriter")
	register("HubPins.v", genHubPins)
}

// constInt finds `const name = <int>` at package level.
func constInt(f *ast.File, name string) (int64, bool) {
	for _, d := range f.Decls {
		gd, ok := d.(*ast.GenDecl)
		if !ok || gd.Tok != token.CONST {
			continue
		}
		for _, sp := range gd.Specs {
			vs := sp.(*ast.ValueSpec)
			for i, n := range vs.Names {
				if n.Name == name && i < len(vs.Values) {
					if bl, ok := vs.Values[i].(*ast.BasicLit); ok && bl.Kind == token.INT {
						v, err := strconv.ParseInt(bl.Value, 0, 64)
						return v, err == nil
					}
				}
			}
		}
	}
	return 0, false
}

// chanCap finds the capacity literal of the first `make(chan T, <int>)` inside a function.
func chanCap(d *ast.FuncDecl) (int64, bool) {
	var res int64
	found := false
	ast.Inspect(d, func(n ast.Node) bool {
		if found {
			return false
		}
		ce, ok := n.(*ast.CallExpr)
		if !ok {
			return true
		}
		id, ok := ce.Fun.(*ast.Ident)
		if !ok || id.Name != "make" || len(ce.Args) != 2 {
			return true
		}
		if _, ok := ce.Args[0].(*ast.ChanType); !ok {
			return true
		}
		if bl, ok := ce.Args[1].(*ast.BasicLit); ok && bl.Kind == token.INT {
			v, err := strconv.ParseInt(bl.Value, 0, 64)
			if err == nil {
				res, found = v, true
			}
		}
		return true
	})
	return res, found
}

func genHubPins(repo string) (string, error) {
	_, hubf, err := parseFile(repo, "pkg/msghub/hub.go")
	if err != nil {
		return "", err
	}
	opLen, ok := constInt(hubf, "opChanLen")
	if !ok {
		return "", fmt.Errorf("const opChanLen not found in pkg/msghub/hub.go")
	}
	caps := map[string]int64{}
	for _, x := range [][2]string{{"pkg/rest/socketv1_controller.go", "newMsgListenerV1"}, {"pkg/rest/socketv2_controller.go", "newMsgListenerV2"}} {
		_, f, err := parseFile(repo, x[0])
		if err != nil {
			return "", err
		}
		d := findFunc(f, x[1])
		if d == nil {
			return "", fmt.Errorf("%s not found in %s", x[1], x[0])
		}
		c, ok := chanCap(d)
		if !ok {
			return "", fmt.Errorf("no make(chan T, <int>) in %s", x[1])
		}
		caps[x[1]] = c
	}
	s := coqHeader("Capacities of the message hub's op queue (const opChanLen) and of the v1/v2 socket listener queues (make(chan …, n) in the constructors).")
	s += fmt.Sprintf("Definition op_chan_len : nat := %d%%nat.\n", opLen)
	s += fmt.Sprintf("Definition v1_queue_cap : nat := %d%%nat.\n", caps["newMsgListenerV1"])
	s += fmt.Sprintf("Definition v2_queue_cap : nat := %d%%nat.\n", caps["newMsgListenerV2"])
	return s, nil
}

package main

// The path scheme of the file store, read from the source: the index file name, the suffixes of the temporary
// index and of the message files, and the two prefix lengths of the directory levels (hash[0:3], hash[0:6]) in
// Store.mbox and Store.mboxFromHash. Proofs/FileDiskSkel.v (paths_pinned) proves the model's paths are these.

import (
	"fmt"
	"go/ast"
	"go/token"
	"strconv"
	"strings"
)

func init() { register("FilePaths.v", genFilePaths) }

func sliceHighs(fd *ast.FuncDecl) (out []int) {
	ast.Inspect(fd.Body, func(x ast.Node) bool {
		if se, ok := x.(*ast.SliceExpr); ok {
			if id, ok := se.X.(*ast.Ident); ok && id.Name == "hash" {
				if lit, ok := se.High.(*ast.BasicLit); ok {
					n, _ := strconv.Atoi(lit.Value)
					out = append(out, n)
				}
			}
		}
		return true
	})
	return
}

// plusLits: the string literals added with + to something inside fd.
func plusLits(fd *ast.FuncDecl) (out []string) {
	ast.Inspect(fd.Body, func(x ast.Node) bool {
		if be, ok := x.(*ast.BinaryExpr); ok && be.Op == token.ADD {
			if lit, ok := be.Y.(*ast.BasicLit); ok && lit.Kind == token.STRING {
				s, _ := strconv.Unquote(lit.Value)
				out = append(out, s)
			}
		}
		return true
	})
	return
}

func genFilePaths(repo string) (string, error) {
	_, f, err := parseFile(repo, "pkg/storage/file/fstore.go")
	if err != nil {
		return "", err
	}
	idxName := ""
	for _, d := range f.Decls {
		gd, ok := d.(*ast.GenDecl)
		if !ok || gd.Tok != token.CONST {
			continue
		}
		for _, sp := range gd.Specs {
			vs := sp.(*ast.ValueSpec)
			for i, n := range vs.Names {
				if n.Name == "indexFileName" && i < len(vs.Values) {
					if lit, ok := vs.Values[i].(*ast.BasicLit); ok {
						idxName, _ = strconv.Unquote(lit.Value)
					}
				}
			}
		}
	}
	if idxName == "" {
		return "", fmt.Errorf("const indexFileName not found")
	}
	mb, mh := findFunc(f, "Store.mbox"), findFunc(f, "Store.mboxFromHash")
	if mb == nil || mh == nil {
		return "", fmt.Errorf("Store.mbox / Store.mboxFromHash not found")
	}
	a, b := sliceHighs(mb), sliceHighs(mh)
	if len(a) != 2 || len(b) != 2 {
		return "", fmt.Errorf("expected two hash[0:n] slices in mbox and mboxFromHash, found %v and %v", a, b)
	}
	_, fm, err := parseFile(repo, "pkg/storage/file/fmessage.go")
	if err != nil {
		return "", err
	}
	rp := findFunc(fm, "Message.rawPath")
	_, fb, err := parseFile(repo, "pkg/storage/file/mbox.go")
	if err != nil {
		return "", err
	}
	wi := findFunc(fb, "mbox.writeIndex")
	if rp == nil || wi == nil {
		return "", fmt.Errorf("Message.rawPath / mbox.writeIndex not found")
	}
	raw, tmp := plusLits(rp), plusLits(wi)
	if len(raw) != 1 || len(tmp) != 1 {
		return "", fmt.Errorf("expected one suffix literal in rawPath and one in writeIndex, found %v and %v", raw, tmp)
	}
	var s strings.Builder
	s.WriteString(coqHeader("the path scheme of pkg/storage/file (go/cmd/pins/c11_paths.go)"))
	s.WriteString("Definition src_index_name : list N := " + coqStr(idxName) + ".\n")
	s.WriteString("Definition src_tmp_suffix : list N := " + coqStr(tmp[0]) + ".\n")
	s.WriteString("Definition src_raw_suffix : list N := " + coqStr(raw[0]) + ".\n")
	s.WriteString(fmt.Sprintf("Definition src_level1_mbox : nat := %d%%nat.\nDefinition src_level2_mbox : nat := %d%%nat.\n", a[0], a[1]))
	s.WriteString(fmt.Sprintf("Definition src_level1_walk : nat := %d%%nat.\nDefinition src_level2_walk : nat := %d%%nat.\n", b[0], b[1]))
	return s.String(), nil
}

package main

// C09: the functions whose atomic sections / scheduling points Model/ConcMem.v and Model/ConcFile.v transcribe.
func init() {
	fpRegister("pkg/storage/mem/store.go", "Store.AddMessage", "Store.GetMessage", "Store.GetMessages", "Store.MarkSeen",
		"Store.PurgeMessages", "Store.removeMessage", "Store.RemoveMessage", "Store.VisitMailboxes", "Store.withMailbox")
	fpRegister("pkg/storage/mem/maxsize.go", "Store.maxSizeEnforcer", "Store.enforcerDeliver", "Store.enforcerRemove")
	fpRegister("pkg/storage/file/fstore.go", "Store.AddMessage", "Store.GetMessage", "Store.GetMessages", "Store.MarkSeen",
		"Store.RemoveMessage", "Store.PurgeMessages", "Store.VisitMailboxes", "Store.mbox", "Store.mboxFromHash")
	fpRegister("pkg/storage/file/mbox.go", "mbox.removeMessage", "mbox.purge", "mbox.readIndex", "mbox.writeIndex",
		"mbox.createDir", "mbox.removeDir", "removeDirIfEmpty")
	fpRegister("pkg/storage/lock.go", "HashLock.Get")
}

package main

// Which command is handled where in pkg/server/smtp/handler.go: the case labels of the "commands we handle in any
// state" switch of startSession, the handler each state dispatches to (switch ssn.state), and the case labels of the
// `switch cmd` of each of those handlers (everything else in a handler is ooSeq: 503). The model's step function must
// treat exactly these words specially in exactly these states (Proofs/SmtpDispatch.v).

import (
	"fmt"
	"go/ast"
	"go/token"
	"sort"
	"strconv"
	"strings"
)

func init() { register("SmtpDispatch.v", genSmtpDispatch) }

func isIdent(e ast.Expr, name string) bool {
	id, ok := e.(*ast.Ident)
	return ok && id.Name == name
}

// cmdSwitchLabels: the string case labels of the `switch cmd` statements directly found in body (not descending into
// nested switches on cmd), and whether the switch has a default clause.
func cmdSwitchLabels(body ast.Node) (labels []string, n int) {
	ast.Inspect(body, func(x ast.Node) bool {
		sw, ok := x.(*ast.SwitchStmt)
		if !ok || !isIdent(sw.Tag, "cmd") {
			return true
		}
		n++
		for _, st := range sw.Body.List {
			cc := st.(*ast.CaseClause)
			for _, e := range cc.List {
				if lit, ok := e.(*ast.BasicLit); ok && lit.Kind == token.STRING {
					s, _ := strconv.Unquote(lit.Value)
					labels = append(labels, s)
				}
			}
		}
		return false
	})
	sort.Strings(labels)
	return
}

func genSmtpDispatch(repo string) (string, error) {
	_, f, err := parseFile(repo, "pkg/server/smtp/handler.go")
	if err != nil {
		return "", err
	}
	start := findFunc(f, "Server.startSession")
	if start == nil {
		return "", fmt.Errorf("startSession not found")
	}
	anyLabels, n := cmdSwitchLabels(start.Body)
	if n != 1 {
		return "", fmt.Errorf("startSession: expected one `switch cmd`, found %d", n)
	}
	// switch ssn.state { case GREET: ssn.greetHandler(cmd, arg) ... } - the one whose clauses call a handler with cmd
	type disp struct{ state, handler string }
	var table []disp
	ast.Inspect(start.Body, func(x ast.Node) bool {
		sw, ok := x.(*ast.SwitchStmt)
		if !ok {
			return true
		}
		se, ok := sw.Tag.(*ast.SelectorExpr)
		if !ok || se.Sel.Name != "state" {
			return true
		}
		for _, st := range sw.Body.List {
			cc := st.(*ast.CaseClause)
			if len(cc.List) != 1 || len(cc.Body) == 0 {
				continue
			}
			id, ok := cc.List[0].(*ast.Ident)
			if !ok {
				continue
			}
			es, ok := cc.Body[0].(*ast.ExprStmt)
			if !ok {
				continue
			}
			call, ok := es.X.(*ast.CallExpr)
			if !ok || len(call.Args) != 2 || !isIdent(call.Args[0], "cmd") {
				continue
			}
			if fn, ok := call.Fun.(*ast.SelectorExpr); ok {
				table = append(table, disp{id.Name, fn.Sel.Name})
			}
		}
		return true
	})
	if len(table) == 0 {
		return "", fmt.Errorf("no state dispatch (switch ssn.state with handler calls) found in startSession")
	}
	var b strings.Builder
	b.WriteString(coqHeader("C03: which command word is handled in which state of the SMTP session (case labels of handler.go)."))
	fmt.Fprintf(&b, "(* handled in every command-parsing state: %s *)\nDefinition dispatch_any : list (list N) :=\n  %s%%N.\n\n", strings.Join(anyLabels, " "), coqStrList(anyLabels))
	b.WriteString("(* state, handler, the words its `switch cmd` names (anything else: ooSeq, 503) *)\nDefinition dispatch_state : list (list N * list (list N)) :=\n  [")
	for i, d := range table {
		h := findFunc(f, "Session."+d.handler)
		if h == nil {
			return "", fmt.Errorf("handler %s not found", d.handler)
		}
		labels, n := cmdSwitchLabels(h.Body)
		if n != 1 {
			return "", fmt.Errorf("%s: expected one `switch cmd`, found %d", d.handler, n)
		}
		if i > 0 {
			b.WriteString(";\n   ")
		}
		fmt.Fprintf(&b, "(* %s -> %s: %s *)\n   (%s,\n    %s)", d.state, d.handler, strings.Join(labels, " "), coqStr(d.state), strings.ReplaceAll(coqStrList(labels), "\n   ", "\n     "))
	}
	b.WriteString("]%N.\n")
	return b.String(), nil
}

package main

// C10/C11: the functions of the file store that Model/FileDisk.v models step by step.
func init() {
	fpRegister("pkg/storage/file/fstore.go", "Store.AddMessage", "Store.MarkSeen", "Store.RemoveMessage",
		"Store.PurgeMessages", "Store.VisitMailboxes", "Store.mbox", "Store.mboxFromHash", "generateID", "readDirNames")
	fpRegister("pkg/storage/file/mbox.go", "mbox.getMessages", "mbox.getMessage", "mbox.removeMessage", "mbox.purge",
		"mbox.readIndex", "mbox.writeIndex", "mbox.createDir", "mbox.removeDir", "removeDirIfEmpty")
	fpRegister("pkg/storage/file/fmessage.go", "mbox.newMessage", "mbox.hasID", "Message.rawPath", "Message.Source")
}

package main

import (
	"fmt"
	"go/ast"
	"go/token"
	"sort"
	"strings"
)

// C07 / C08 / C16 (store group): what the store models transcribe by hand is read from the source:
//   - the file store's id format (time layout, separator, counter format and modulus), its path
//     scheme (hash prefix lengths, index file name, raw suffix);
//   - which functions take messages out of a mailbox (memory store: delete(mb.messages, …) or
//     re-assignment of mb.messages; file store: assignments to mb.messages) and which functions
//     emit AfterMessageDeleted / AfterMessageStored, with the callers of the emitting helpers;
//   - the order of the notable steps of mem AddMessage, file AddMessage, file newMessage and
//     StoreManager.Deliver.
func init() {
	fpRegister("pkg/storage/mem/store.go", "Store.AddMessage", "Store.GetMessage", "Store.GetMessages", "Store.MarkSeen",
		"Store.PurgeMessages", "Store.removeMessage", "Store.RemoveMessage", "Store.emitDeleted", "Store.withMailbox")
	fpRegister("pkg/storage/mem/maxsize.go", "Store.maxSizeEnforcer", "Store.enforcerDeliver", "Store.enforcerRemove")
	fpRegister("pkg/storage/file/fstore.go", "Store.AddMessage", "Store.GetMessage", "Store.GetMessages", "Store.MarkSeen",
		"Store.RemoveMessage", "Store.PurgeMessages", "Store.mbox", "generateID", "generatePrefix", "countGenerator")
	fpRegister("pkg/storage/file/mbox.go", "mbox.getMessages", "mbox.getMessage", "mbox.removeMessage", "mbox.purge", "mbox.readIndex", "mbox.writeIndex")
	fpRegister("pkg/storage/file/fmessage.go", "mbox.newMessage", "mbox.hasID", "Message.rawPath")
	fpRegister("pkg/message/manager.go", "StoreManager.Deliver")
	fpRegister("pkg/extension/async_broker.go", "AsyncEventBroker.Emit", "asyncListener.push", "asyncListener.deliver",
		"AsyncEventBroker.AddListener", "AsyncEventBroker.lockedRemoveListener")
	register("StorePins.v", genStorePins)
}

type storeFn struct {
	file string
	decl *ast.FuncDecl
}

func storeFuncs(repo string, files ...string) ([]storeFn, error) {
	var out []storeFn
	for _, rel := range files {
		_, f, err := parseFile(repo, rel)
		if err != nil {
			return nil, err
		}
		for _, d := range f.Decls {
			if fd, ok := d.(*ast.FuncDecl); ok && fd.Body != nil {
				out = append(out, storeFn{rel, fd})
			}
		}
	}
	return out, nil
}

// callsOf returns, in source order, the last component of every call in the function.
func callsOf(d *ast.FuncDecl) []string {
	var out []string
	ast.Inspect(d.Body, func(n ast.Node) bool {
		if ce, ok := n.(*ast.CallExpr); ok {
			c := selChain(ce.Fun)
			if i := strings.LastIndex(c, "."); i >= 0 {
				c = c[i+1:]
			}
			out = append(out, c)
		}
		return true
	})
	return out
}

func emitsEvent(d *ast.FuncDecl, ev string) bool {
	found := false
	ast.Inspect(d.Body, func(n ast.Node) bool {
		if ce, ok := n.(*ast.CallExpr); ok && strings.HasSuffix(selChain(ce.Fun), "."+ev+".Emit") {
			found = true
		}
		return true
	})
	return found
}

func callsFunc(d *ast.FuncDecl, name string) bool {
	for _, c := range callsOf(d) {
		if c == name {
			return true
		}
	}
	return false
}

// deletesFromMessages: delete(x.messages, …)
func deletesFromMessages(d *ast.FuncDecl) bool {
	found := false
	ast.Inspect(d.Body, func(n ast.Node) bool {
		if ce, ok := n.(*ast.CallExpr); ok {
			if id, ok := ce.Fun.(*ast.Ident); ok && id.Name == "delete" && len(ce.Args) == 2 && strings.HasSuffix(selChain(ce.Args[0]), ".messages") {
				found = true
			}
		}
		return true
	})
	return found
}

// assignsMessages: x.messages = … (not :=)
func assignsMessages(d *ast.FuncDecl) bool {
	found := false
	ast.Inspect(d.Body, func(n ast.Node) bool {
		if as, ok := n.(*ast.AssignStmt); ok && as.Tok == token.ASSIGN {
			for _, l := range as.Lhs {
				if strings.HasSuffix(selChain(l), ".messages") {
					found = true
				}
			}
		}
		return true
	})
	return found
}

func namesWhere(fs []storeFn, file string, pred func(*ast.FuncDecl) bool) []string {
	var out []string
	for _, f := range fs {
		if (file == "" || f.file == file) && pred(f.decl) {
			out = append(out, funcName(f.decl))
		}
	}
	sort.Strings(out)
	return out
}

func orderedAmong(d *ast.FuncDecl, want ...string) []string {
	set := map[string]bool{}
	for _, w := range want {
		set[w] = true
	}
	var out []string
	for _, c := range callsOf(d) {
		if set[c] {
			out = append(out, c)
		}
	}
	return out
}

func genStorePins(repo string) (string, error) {
	memFiles := []string{"pkg/storage/mem/store.go", "pkg/storage/mem/maxsize.go"}
	fileFiles := []string{"pkg/storage/file/fstore.go", "pkg/storage/file/mbox.go", "pkg/storage/file/fmessage.go"}
	memF, err := storeFuncs(repo, memFiles...)
	if err != nil {
		return "", err
	}
	fileF, err := storeFuncs(repo, fileFiles...)
	if err != nil {
		return "", err
	}
	mgrF, err := storeFuncs(repo, "pkg/message/manager.go")
	if err != nil {
		return "", err
	}
	find := func(fs []storeFn, name string) *ast.FuncDecl {
		for _, f := range fs {
			if funcName(f.decl) == name {
				return f.decl
			}
		}
		return nil
	}
	need := func(fs []storeFn, name string) (*ast.FuncDecl, error) {
		d := find(fs, name)
		if d == nil {
			return nil, fmt.Errorf("%s not found", name)
		}
		return d, nil
	}
	// ---- id format and path scheme
	gp, err := need(fileF, "generatePrefix")
	if err != nil {
		return "", err
	}
	gid, err := need(fileF, "generateID")
	if err != nil {
		return "", err
	}
	cg, err := need(fileF, "countGenerator")
	if err != nil {
		return "", err
	}
	rp, err := need(fileF, "Message.rawPath")
	if err != nil {
		return "", err
	}
	mbx, err := need(fileF, "Store.mbox")
	if err != nil {
		return "", err
	}
	layout := stringLits(gp)
	idl := stringLits(gid)
	mod := intLits(cg)
	raw := stringLits(rp)
	cuts := intLits(mbx)
	if len(layout) != 1 || len(idl) != 2 || len(mod) != 3 || len(raw) != 1 || len(cuts) != 4 {
		return "", fmt.Errorf("id/path scheme has another shape: layout %v id %v counter %v raw %v cuts %v", layout, idl, mod, raw, cuts)
	}
	// indexFileName constant
	_, ff, err := parseFile(repo, "pkg/storage/file/fstore.go")
	if err != nil {
		return "", err
	}
	indexName := ""
	for _, d := range ff.Decls {
		if gd, ok := d.(*ast.GenDecl); ok && gd.Tok == token.CONST {
			for _, sp := range gd.Specs {
				if vs, ok := sp.(*ast.ValueSpec); ok && len(vs.Names) == 1 && vs.Names[0].Name == "indexFileName" && len(vs.Values) == 1 {
					if bl, ok := vs.Values[0].(*ast.BasicLit); ok {
						indexName = strings.Trim(bl.Value, "\"")
					}
				}
			}
		}
	}
	if indexName == "" {
		return "", fmt.Errorf("indexFileName not found")
	}
	digits := 0
	if f := idl[1]; len(f) == 4 && f[0] == '%' && f[1] == '0' && f[3] == 'd' {
		digits = int(f[2] - '0')
	}
	s := coqHeader("Store group (C07, C08, C16): id format and path scheme of the file store; the functions that take messages out of a mailbox and the functions that emit the after-events; the order of the steps of the delivery paths.")
	s += "Definition file_id_layout : list N := " + coqStr(layout[0]) + ".   (* " + layout[0] + " *)\n"
	s += "Definition file_id_sep : list N := " + coqStr(idl[0]) + ".\n"
	s += "Definition file_id_ctr_format : list N := " + coqStr(idl[1]) + ".   (* " + idl[1] + " *)\n"
	s += fmt.Sprintf("Definition file_id_ctr_digits : N := %d.\n", digits)
	s += fmt.Sprintf("Definition file_ctr_start : N := %d.\nDefinition file_ctr_step : N := %d.\nDefinition file_ctr_mod : N := %d.\n", mod[0], mod[1], mod[2])
	s += "Definition file_raw_suffix : list N := " + coqStr(raw[0]) + ".\n"
	s += "Definition file_index_name : list N := " + coqStr(indexName) + ".\n"
	s += fmt.Sprintf("Definition file_hash_cuts : list N := [%d; %d; %d; %d].   (* hash[a:b] of level 1, hash[a:b] of level 2 *)\n\n", cuts[0], cuts[1], cuts[2], cuts[3])
	// ---- removal and emission sites
	lst := func(name string, xs []string) string {
		return "Definition " + name + " : list (list N) :=\n  " + coqStrList(xs) + ".   (* " + strings.Join(xs, ", ") + " *)\n"
	}
	s += lst("mem_delete_sites", namesWhere(memF, "", deletesFromMessages))
	s += lst("mem_reassign_sites", namesWhere(memF, "", assignsMessages))
	s += lst("mem_deleted_emitters", namesWhere(memF, "", func(d *ast.FuncDecl) bool { return emitsEvent(d, "AfterMessageDeleted") }))
	s += lst("mem_emitDeleted_callers", namesWhere(memF, "", func(d *ast.FuncDecl) bool { return callsFunc(d, "emitDeleted") }))
	s += lst("mem_removeMessage_callers", namesWhere(memF, "", func(d *ast.FuncDecl) bool { return callsFunc(d, "removeMessage") }))
	s += lst("mem_stored_emitters", namesWhere(memF, "", func(d *ast.FuncDecl) bool { return emitsEvent(d, "AfterMessageStored") }))
	s += lst("file_assign_sites", namesWhere(fileF, "", assignsMessages))
	s += lst("file_deleted_emitters", namesWhere(fileF, "", func(d *ast.FuncDecl) bool { return emitsEvent(d, "AfterMessageDeleted") }))
	s += lst("file_removeMessage_callers", namesWhere(fileF, "", func(d *ast.FuncDecl) bool { return callsFunc(d, "removeMessage") }))
	s += lst("file_purge_callers", namesWhere(fileF, "", func(d *ast.FuncDecl) bool { return callsFunc(d, "purge") }))
	s += lst("file_stored_emitters", namesWhere(fileF, "", func(d *ast.FuncDecl) bool { return emitsEvent(d, "AfterMessageStored") }))
	s += lst("manager_stored_emitters", namesWhere(mgrF, "", func(d *ast.FuncDecl) bool { return emitsEvent(d, "AfterMessageStored") }))
	s += lst("manager_deleted_emitters", namesWhere(mgrF, "", func(d *ast.FuncDecl) bool { return emitsEvent(d, "AfterMessageDeleted") }))
	// ---- step orders
	memAdd, err := need(memF, "Store.AddMessage")
	if err != nil {
		return "", err
	}
	fileAdd, err := need(fileF, "Store.AddMessage")
	if err != nil {
		return "", err
	}
	newMsg, err := need(fileF, "mbox.newMessage")
	if err != nil {
		return "", err
	}
	deliver, err := need(mgrF, "StoreManager.Deliver")
	if err != nil {
		return "", err
	}
	enf, err := need(memF, "Store.maxSizeEnforcer")
	if err != nil {
		return "", err
	}
	s += "\n" + lst("mem_add_steps", orderedAmong(memAdd, "withMailbox", "delete", "enforcerRemove", "emitDeleted", "enforcerDeliver"))
	s += lst("mem_enforcer_steps", orderedAmong(enf, "PushBack", "Front", "Remove", "removeMessage"))
	s += lst("file_add_steps", orderedAmong(fileAdd, "newMessage", "createDir", "Create", "Copy", "writeIndex"))
	s += lst("file_newmessage_steps", orderedAmong(newMsg, "readIndex", "removeMessage", "generateID", "hasID"))
	s += lst("deliver_steps", orderedAmong(deliver, "AddMessage", "Emit"))
	return s, nil
}

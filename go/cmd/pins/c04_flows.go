package main

// C04 translator part 2: which function each entry point calls to compute a mailbox name.
//
//	receive side: the SMTP RCPT handler -> Addressing.NewRecipient -> (ParseEmailAddress guard,
//	              Mailbox field := ExtractMailbox(address)) -> StoreManager.Deliver stores under recip.Mailbox
//	read side:    every Vars["name"] use in pkg/rest and pkg/webui -> Manager.MailboxForAddress -> ExtractMailbox;
//	              POP3 USER/APOP: s.user = args[i], loadMailbox -> store.GetMessages(s.user)
//
// plus the ordered list of naming functions each function of pkg/policy/address.go calls.
// Output: coq/Gen/AddrFlows.v. A shape this reader does not recognise becomes NUnknown "<what it saw>":
// the model has no meaning for it, so the theorems that tie the flows to the model stop checking.

import (
	"fmt"
	"go/ast"
	"go/token"
	"sort"
	"strings"
)

func init() {
	fpRegister("pkg/message/manager.go", "StoreManager.Deliver")
	register("AddrFlows.v", genAddrFlows)
}

// calleesOf lists, in source order, the calls inside d whose function name is in the set.
func calleesOf(d *ast.FuncDecl, set map[string]bool) []string {
	type hit struct {
		pos  token.Pos
		name string
	}
	var hits []hit
	ast.Inspect(d, func(n ast.Node) bool {
		ce, ok := n.(*ast.CallExpr)
		if !ok {
			return true
		}
		name := ""
		switch f := ce.Fun.(type) {
		case *ast.Ident:
			name = f.Name
		case *ast.SelectorExpr:
			name = f.Sel.Name
			if id, ok := f.X.(*ast.Ident); ok && (id.Name == "strings" || id.Name == "net") {
				name = id.Name + "." + name
			}
		}
		if set[name] {
			hits = append(hits, hit{ce.Pos(), name})
		}
		return true
	})
	sort.Slice(hits, func(i, j int) bool { return hits[i].pos < hits[j].pos })
	out := make([]string, len(hits))
	for i, h := range hits {
		out[i] = h.name
	}
	return out
}

func coqNexprUnknown(what string) string {
	return fmt.Sprintf("NCall (NUnknown %s) NArg (* %s *)", coqStr(what), strings.ReplaceAll(what, "*)", "* )"))
}

func genAddrFlows(repo string) (string, error) {
	var b strings.Builder
	b.WriteString(coqHeader("Which function each entry point calls to compute a mailbox name (receive side and read side); call lists of pkg/policy/address.go."))
	b.WriteString("Inductive nfun := NExtractMailbox | NMailboxForAddress | NUnknown (what : list N).\n")
	b.WriteString("Inductive nexpr := NArg | NCall (f : nfun) (x : nexpr).\n\n")

	fset, f, err := parseFile(repo, "pkg/policy/address.go")
	if err != nil {
		return "", err
	}

	// ---- NewRecipient: where the Mailbox field comes from
	rcptExpr := coqNexprUnknown("NewRecipient not found")
	guard := false
	if d := findFunc(f, "Addressing.NewRecipient"); d != nil && d.Type.Params != nil && len(d.Type.Params.List) == 1 && len(d.Type.Params.List[0].Names) == 1 {
		param := d.Type.Params.List[0].Names[0].Name
		// the Mailbox field of the returned composite literal
		var mailboxExpr ast.Expr
		ast.Inspect(d, func(n ast.Node) bool {
			if cl, ok := n.(*ast.CompositeLit); ok {
				for _, el := range cl.Elts {
					if kv, ok := el.(*ast.KeyValueExpr); ok {
						if k, ok := kv.Key.(*ast.Ident); ok && k.Name == "Mailbox" {
							mailboxExpr = kv.Value
						}
					}
				}
			}
			return true
		})
		isExtractOfParam := func(e ast.Expr) bool {
			ce, ok := e.(*ast.CallExpr)
			if !ok || len(ce.Args) != 1 {
				return false
			}
			se, ok := ce.Fun.(*ast.SelectorExpr)
			if !ok || se.Sel.Name != "ExtractMailbox" {
				return false
			}
			id, ok := ce.Args[0].(*ast.Ident)
			return ok && id.Name == param
		}
		switch {
		case mailboxExpr == nil:
			rcptExpr = coqNexprUnknown("no Mailbox field in NewRecipient's result")
		case isExtractOfParam(mailboxExpr):
			rcptExpr = "NCall NExtractMailbox NArg"
		default:
			if id, ok := mailboxExpr.(*ast.Ident); ok {
				// every assignment to that variable
				var rhs []ast.Expr
				ast.Inspect(d, func(n ast.Node) bool {
					if as, ok := n.(*ast.AssignStmt); ok {
						for i, l := range as.Lhs {
							if li, ok := l.(*ast.Ident); ok && li.Name == id.Name {
								if len(as.Rhs) == len(as.Lhs) {
									rhs = append(rhs, as.Rhs[i])
								} else if len(as.Rhs) == 1 {
									rhs = append(rhs, as.Rhs[0])
								}
							}
						}
					}
					return true
				})
				if len(rhs) == 1 && isExtractOfParam(rhs[0]) {
					rcptExpr = "NCall NExtractMailbox NArg"
				} else {
					var parts []string
					for _, r := range rhs {
						parts = append(parts, exprString(fset, r))
					}
					rcptExpr = coqNexprUnknown(id.Name + " := " + strings.Join(parts, " | "))
				}
			} else {
				rcptExpr = coqNexprUnknown(exprString(fset, mailboxExpr))
			}
		}
		// guard: the first statement is `.., err := ParseEmailAddress(param)` followed by `if err != nil { return nil, err }`
		if d.Body != nil && len(d.Body.List) >= 2 {
			if as, ok := d.Body.List[0].(*ast.AssignStmt); ok && len(as.Rhs) == 1 {
				if ce, ok := as.Rhs[0].(*ast.CallExpr); ok && len(ce.Args) == 1 {
					if fn, ok := ce.Fun.(*ast.Ident); ok && fn.Name == "ParseEmailAddress" {
						if id, ok := ce.Args[0].(*ast.Ident); ok && id.Name == param {
							if is, ok := d.Body.List[1].(*ast.IfStmt); ok && exprString(fset, is.Cond) == "err != nil" {
								guard = true
							}
						}
					}
				}
			}
		}
	}
	fmt.Fprintf(&b, "(* Addressing.NewRecipient: the Mailbox field of the Recipient, as an expression in the RCPT argument *)\nDefinition rcpt_mailbox_expr : nexpr := %s.\n", rcptExpr)
	fmt.Fprintf(&b, "(* ... and it first returns the error of ParseEmailAddress(address) *)\nDefinition rcpt_guard_is_parse_email_address : bool := %v.\n\n", guard)

	// ---- the SMTP RCPT handler calls NewRecipient on the trimmed argument
	rcptCalls := false
	trim := ""
	var policyCalls []string
	if _, hf, err := parseFile(repo, "pkg/server/smtp/handler.go"); err == nil {
		ast.Inspect(hf, func(n ast.Node) bool {
			cc, ok := n.(*ast.CaseClause)
			if !ok || len(cc.List) != 1 {
				return true
			}
			bl, ok := cc.List[0].(*ast.BasicLit)
			if !ok || bl.Value != `"RCPT"` {
				return true
			}
			argVar := ""
			for _, st := range cc.Body {
				ast.Inspect(st, func(m ast.Node) bool {
					if as, ok := m.(*ast.AssignStmt); ok && len(as.Lhs) >= 1 && len(as.Rhs) == 1 {
						if ce, ok := as.Rhs[0].(*ast.CallExpr); ok {
							if se, ok := ce.Fun.(*ast.SelectorExpr); ok {
								if x, ok := se.X.(*ast.Ident); ok && x.Name == "strings" && se.Sel.Name == "Trim" && len(ce.Args) == 2 {
									if id, ok := as.Lhs[0].(*ast.Ident); ok {
										argVar = id.Name
										if l, ok := ce.Args[1].(*ast.BasicLit); ok {
											trim = strings.Trim(l.Value, `"`)
										}
									}
								}
								if inner, ok := se.X.(*ast.SelectorExpr); ok && inner.Sel.Name == "addrPolicy" {
									policyCalls = append(policyCalls, se.Sel.Name)
									if se.Sel.Name == "NewRecipient" && len(ce.Args) == 1 {
										if id, ok := ce.Args[0].(*ast.Ident); ok && id.Name == argVar && argVar != "" {
											rcptCalls = true
										}
									}
								}
							}
						}
					}
					return true
				})
			}
			return false
		})
	}
	fmt.Fprintf(&b, "(* pkg/server/smtp/handler.go, case \"RCPT\": recip, err := s.addrPolicy.NewRecipient(addr) with addr := strings.Trim(arg[3:], %q) *)\n", trim)
	fmt.Fprintf(&b, "Definition rcpt_handler_calls_new_recipient : bool := %v.\nDefinition rcpt_handler_policy_calls : list (list N) := %s.\nDefinition rcpt_handler_trim_cutset : list N := %s.\n\n",
		rcptCalls, coqStrList(policyCalls), coqStr(trim))

	// ---- Deliver stores under recip.Mailbox
	deliverOK := false
	nApp := 0
	if mfset, mf, err := parseFile(repo, "pkg/message/manager.go"); err == nil {
		if d := findFunc(mf, "StoreManager.Deliver"); d != nil {
			deliverOK = true
			ast.Inspect(d, func(n ast.Node) bool {
				if ce, ok := n.(*ast.CallExpr); ok {
					if id, ok := ce.Fun.(*ast.Ident); ok && id.Name == "append" && len(ce.Args) == 2 && exprString(mfset, ce.Args[0]) == "mailboxes" {
						nApp++
						if exprString(mfset, ce.Args[1]) != "recip.Mailbox" {
							deliverOK = false
						}
					}
				}
				return true
			})
			if nApp == 0 {
				deliverOK = false
			}
		}
	}
	fmt.Fprintf(&b, "(* StoreManager.Deliver: every append(mailboxes, x) has x = recip.Mailbox (%d of them) *)\nDefinition deliver_uses_recipient_mailbox : bool := %v.\n\n", nApp, deliverOK)

	// ---- MailboxForAddress
	mfaExpr := coqNexprUnknown("MailboxForAddress is not `return s.AddrPolicy.ExtractMailbox(x)`")
	if _, mf, err := parseFile(repo, "pkg/message/manager.go"); err == nil {
		if d := findFunc(mf, "StoreManager.MailboxForAddress"); d != nil && d.Body != nil && len(d.Body.List) == 1 {
			if rs, ok := d.Body.List[0].(*ast.ReturnStmt); ok && len(rs.Results) == 1 {
				if ce, ok := rs.Results[0].(*ast.CallExpr); ok && len(ce.Args) == 1 {
					if se, ok := ce.Fun.(*ast.SelectorExpr); ok && se.Sel.Name == "ExtractMailbox" {
						if id, ok := ce.Args[0].(*ast.Ident); ok && len(d.Type.Params.List) == 1 &&
							len(d.Type.Params.List[0].Names) == 1 && d.Type.Params.List[0].Names[0].Name == id.Name {
							mfaExpr = "NCall NExtractMailbox NArg"
						}
					}
				}
			}
		}
	}
	fmt.Fprintf(&b, "(* StoreManager.MailboxForAddress *)\nDefinition mailbox_for_address_expr : nexpr := %s.\n\n", mfaExpr)

	// ---- read entries
	type entry struct{ where, expr string }
	var entries []entry
	for _, dir := range []string{"pkg/rest", "pkg/webui"} {
		u, err := nameUses(repo, dir)
		if err != nil {
			return "", err
		}
		for _, x := range u {
			if x.via {
				entries = append(entries, entry{x.where, "NCall NMailboxForAddress NArg"})
			} else {
				entries = append(entries, entry{x.where, "NArg"})
			}
		}
	}
	nRest := len(entries)
	// POP3: s.user = <expr>; the mailbox is loaded with s.store.GetMessages(s.user)
	pfset, pf, err := parseFile(repo, "pkg/server/pop3/handler.go")
	if err != nil {
		return "", err
	}
	loadsUser := false
	ast.Inspect(pf, func(n ast.Node) bool {
		if ce, ok := n.(*ast.CallExpr); ok {
			if se, ok := ce.Fun.(*ast.SelectorExpr); ok && se.Sel.Name == "GetMessages" && len(ce.Args) == 1 && exprString(pfset, ce.Args[0]) == "s.user" {
				loadsUser = true
			}
		}
		if as, ok := n.(*ast.AssignStmt); ok && len(as.Lhs) == 1 && len(as.Rhs) == 1 {
			if se, ok := as.Lhs[0].(*ast.SelectorExpr); ok && se.Sel.Name == "user" {
				if bl, ok := as.Rhs[0].(*ast.BasicLit); ok && bl.Kind == token.STRING {
					return true
				}
				where := fmt.Sprintf("pkg/server/pop3/handler.go:%d", pfset.Position(as.Pos()).Line)
				rhs := exprString(pfset, as.Rhs[0])
				if strings.HasPrefix(rhs, "args[") {
					entries = append(entries, entry{where, "NArg"})
				} else {
					entries = append(entries, entry{where, coqNexprUnknown(rhs)})
				}
			}
		}
		return true
	})
	b.WriteString("(* every place where a reader's string becomes a mailbox name: pkg/rest, pkg/webui (the URL variable), POP3 (s.user) *)\n")
	b.WriteString("Definition read_entries : list (list N * nexpr) :=\n  [")
	for i, e := range entries {
		if i > 0 {
			b.WriteString(";\n   ")
		}
		fmt.Fprintf(&b, "(%s, %s) (* %s *)", coqStr(e.where), e.expr, e.where)
	}
	b.WriteString("].\n")
	fmt.Fprintf(&b, "Definition read_entries_http : nat := %d.\nDefinition read_entries_pop3 : nat := %d.\n", nRest, len(entries)-nRest)
	fmt.Fprintf(&b, "(* POP3 loadMailbox: s.store.GetMessages(s.user) *)\nDefinition pop3_loads_user_verbatim : bool := %v.\n\n", loadsUser)

	// ---- call lists of the naming functions
	set := map[string]bool{"ParseEmailAddress": true, "parseEmailAddress": true, "parseMailboxName": true, "ValidateDomainPart": true,
		"canonicalDomain": true, "extractDomainMailbox": true, "ExtractMailbox": true, "NewRecipient": true,
		"strings.ToLower": true, "net.ParseIP": true}
	b.WriteString("(* the naming functions each function of pkg/policy/address.go calls, in source order *)\n")
	b.WriteString("Definition addr_calls : list (list N * list (list N)) :=\n  [")
	for i, fn := range []string{"Addressing.NewRecipient", "Addressing.ExtractMailbox", "extractDomainMailbox", "ParseEmailAddress", "parseEmailAddress", "parseMailboxName", "ValidateDomainPart", "canonicalDomain", "Addressing.ParseOrigin"} {
		if i > 0 {
			b.WriteString(";\n   ")
		}
		var cs []string
		if d := findFunc(f, fn); d != nil {
			cs = calleesOf(d, set)
		} else {
			cs = []string{"<function not found>"}
		}
		fmt.Fprintf(&b, "(%s, %s) (* %s: %s *)", coqStr(fn), coqStrList(cs), fn, strings.Join(cs, ", "))
	}
	b.WriteString("].\n")
	return b.String(), nil
}

package main

// C04 translator part: the character-class strings and numeric limits of the address
// parser (pkg/policy/address.go), read from the source with go/ast, and the list of
// read-side uses of the URL variable "name" (pkg/rest, pkg/webui) together with whether
// each one flows through Manager.MailboxForAddress => Addressing.ExtractMailbox.
// Output: coq/Gen/AddrConsts.v.

import (
	"bytes"
	"fmt"
	"go/ast"
	"go/printer"
	"go/token"
	"os"
	"path/filepath"
	"sort"
	"strconv"
	"strings"
)

func init() {
	fpRegister("pkg/policy/address.go", "Addressing.ExtractMailbox", "Addressing.NewRecipient", "ParseEmailAddress",
		"ValidateDomainPart", "canonicalDomain", "extractDomainMailbox", "parseEmailAddress", "parseMailboxName")
	fpRegister("pkg/message/manager.go", "StoreManager.MailboxForAddress")
	register("AddrConsts.v", genAddrConsts)
}

func exprString(fset *token.FileSet, e ast.Expr) string {
	var b bytes.Buffer
	printer.Fprint(&b, fset, e)
	return b.String()
}

// cmpLit finds `<left> <op> <int literal>` inside a function.
func cmpLit(fset *token.FileSet, d *ast.FuncDecl, left string, op token.Token) (int64, error) {
	var res []int64
	ast.Inspect(d, func(n ast.Node) bool {
		if be, ok := n.(*ast.BinaryExpr); ok && be.Op == op {
			if bl, ok := be.Y.(*ast.BasicLit); ok && bl.Kind == token.INT && exprString(fset, be.X) == left {
				v, err := strconv.ParseInt(bl.Value, 0, 64)
				if err == nil {
					res = append(res, v)
				}
			}
		}
		return true
	})
	if len(res) != 1 {
		return 0, fmt.Errorf("%s: expected exactly one comparison `%s %s <int>`, found %d", d.Name.Name, left, op, len(res))
	}
	return res[0], nil
}

// callStrArg finds calls pkg.fn(...) and returns the string literal at argument position idx of each.
func callStrArg(d *ast.FuncDecl, pkg, fn string, idx int) []string {
	var res []string
	ast.Inspect(d, func(n ast.Node) bool {
		if ce, ok := n.(*ast.CallExpr); ok {
			if se, ok := ce.Fun.(*ast.SelectorExpr); ok && se.Sel.Name == fn {
				if id, ok := se.X.(*ast.Ident); ok && id.Name == pkg && len(ce.Args) > idx {
					if bl, ok := ce.Args[idx].(*ast.BasicLit); ok && bl.Kind == token.STRING {
						if s, err := strconv.Unquote(bl.Value); err == nil {
							res = append(res, s)
						}
					}
				}
			}
		}
		return true
	})
	return res
}

// assignLits returns the integer literals assigned (= or :=) to a variable, in source order.
func assignLits(d *ast.FuncDecl, name string) []int64 {
	var res []int64
	ast.Inspect(d, func(n ast.Node) bool {
		if as, ok := n.(*ast.AssignStmt); ok && len(as.Lhs) == 1 && len(as.Rhs) == 1 {
			if id, ok := as.Lhs[0].(*ast.Ident); ok && id.Name == name {
				if bl, ok := as.Rhs[0].(*ast.BasicLit); ok && bl.Kind == token.INT {
					if v, err := strconv.ParseInt(bl.Value, 0, 64); err == nil {
						res = append(res, v)
					}
				}
			}
		}
		return true
	})
	return res
}

func one(xs []string, what string) (string, error) {
	if len(xs) != 1 {
		return "", fmt.Errorf("%s: expected exactly one, found %d", what, len(xs))
	}
	return xs[0], nil
}

type nameUse struct {
	where string
	via   bool
}

// nameUses lists every expression ctx.Vars["name"] (any receiver X.Vars["name"]) in the
// non-test files of a package directory and says whether it is the sole argument of a call
// <...>.MailboxForAddress(...).
func nameUses(repo, dir string) ([]nameUse, error) {
	ents, err := os.ReadDir(filepath.Join(repo, dir))
	if err != nil {
		return nil, err
	}
	var res []nameUse
	for _, e := range ents {
		n := e.Name()
		if !strings.HasSuffix(n, ".go") || strings.HasSuffix(n, "_test.go") {
			continue
		}
		fset, f, err := parseFile(repo, filepath.Join(dir, n))
		if err != nil {
			return nil, err
		}
		isNameVar := func(x ast.Expr) bool {
			ie, ok := x.(*ast.IndexExpr)
			if !ok {
				return false
			}
			se, ok := ie.X.(*ast.SelectorExpr)
			if !ok || se.Sel.Name != "Vars" {
				return false
			}
			bl, ok := ie.Index.(*ast.BasicLit)
			return ok && bl.Kind == token.STRING && bl.Value == `"name"`
		}
		wrapped := map[ast.Expr]bool{}
		ast.Inspect(f, func(nd ast.Node) bool {
			if ce, ok := nd.(*ast.CallExpr); ok && len(ce.Args) == 1 && isNameVar(ce.Args[0]) {
				if se, ok := ce.Fun.(*ast.SelectorExpr); ok && se.Sel.Name == "MailboxForAddress" {
					wrapped[ce.Args[0]] = true
				}
			}
			return true
		})
		ast.Inspect(f, func(nd ast.Node) bool {
			if x, ok := nd.(ast.Expr); ok && isNameVar(x) {
				pos := fset.Position(x.Pos())
				res = append(res, nameUse{fmt.Sprintf("%s/%s:%d", dir, n, pos.Line), wrapped[x]})
			}
			return true
		})
	}
	sort.Slice(res, func(i, j int) bool { return res[i].where < res[j].where })
	return res, nil
}

func genAddrConsts(repo string) (string, error) {
	fset, f, err := parseFile(repo, "pkg/policy/address.go")
	if err != nil {
		return "", err
	}
	// A constant that cannot be read does not stop the run (the other properties share this
	// program, and the correspondence check should still look for a failing input): it gets a
	// neutral default, the problem is listed, and addr_consts_complete = false makes the
	// theorems that rely on the constants fail to check.
	var problems []string
	note := func(err error) {
		if err != nil {
			problems = append(problems, err.Error())
		}
	}
	get := func(name string) *ast.FuncDecl {
		d := findFunc(f, name)
		if d == nil {
			note(fmt.Errorf("pkg/policy/address.go: function %s not found", name))
			return &ast.FuncDecl{Name: ast.NewIdent(name), Type: &ast.FuncType{}, Body: &ast.BlockStmt{}}
		}
		return d
	}
	cmp := func(d *ast.FuncDecl, left string, op token.Token) int64 {
		v, err := cmpLit(fset, d, left, op)
		note(err)
		return v
	}
	str1 := func(xs []string, what string) string {
		v, err := one(xs, what)
		note(err)
		return v
	}
	pe := get("parseEmailAddress")
	pm := get("parseMailboxName")
	vd := get("ValidateDomainPart")
	cd := get("canonicalDomain")
	var b strings.Builder
	b.WriteString(coqHeader("Character classes and limits of pkg/policy/address.go; read-side uses of the URL variable \"name\"."))
	b.WriteString("Inductive name_flow := ViaMailboxForAddress | Verbatim.\n\n")

	maxAddr := cmp(pe, "len(address)", token.GTR)
	maxLocal := cmp(pe, "i", token.GTR)
	peSpecials := str1(callStrArg(pe, "strings", "IndexByte", 0), "parseEmailAddress strings.IndexByte literal")
	pmSpecials := str1(callStrArg(pm, "strings", "IndexByte", 0), "parseMailboxName strings.IndexByte literal")
	pmSep := str1(callStrArg(pm, "strings", "Index", 1), "parseMailboxName strings.Index literal")
	if len(pmSep) != 1 {
		note(fmt.Errorf("parseMailboxName: extension separator %q is not one byte", pmSep))
		pmSep = "+"
	}
	maxDomain := cmp(vd, "ln", token.GTR)
	minBracket := cmp(vd, "ln", token.GEQ)
	maxLabel := cmp(vd, "labelLen", token.GTR)
	ipTag := str1(callStrArg(vd, "strings", "HasPrefix", 1), "ValidateDomainPart strings.HasPrefix literal")
	sLits := assignLits(vd, "s")
	if len(sLits) != 2 {
		note(fmt.Errorf("ValidateDomainPart: expected two literal assignments to s, found %d", len(sLits)))
		sLits = []int64{1, 6}
	}
	canonTag := str1(callStrArg(cd, "strings", "HasPrefix", 1), "canonicalDomain strings.HasPrefix literal")
	cdInts := intLits(cd)
	if len(cdInts) != 1 {
		note(fmt.Errorf("canonicalDomain: expected exactly one integer literal (the slice start), found %d", len(cdInts)))
		cdInts = []int64{int64(len(canonTag))}
	}
	fmt.Fprintf(&b, "(* parseEmailAddress *)\nDefinition max_address_len : N := %d.\nDefinition max_local_index : N := %d.\n", maxAddr, maxLocal)
	fmt.Fprintf(&b, "Definition email_specials : list N := %s. (* %q *)\n\n", coqStr(peSpecials), peSpecials)
	fmt.Fprintf(&b, "(* parseMailboxName *)\nDefinition mailbox_specials : list N := %s. (* %q *)\n", coqStr(pmSpecials), pmSpecials)
	fmt.Fprintf(&b, "Definition ext_separator : N := %d. (* %q *)\n\n", pmSep[0], pmSep)
	fmt.Fprintf(&b, "(* ValidateDomainPart *)\nDefinition max_domain_len : N := %d.\nDefinition min_bracket_len : N := %d.\nDefinition max_label_len : N := %d.\n", maxDomain, minBracket, maxLabel)
	fmt.Fprintf(&b, "Definition ip_tag : list N := %s. (* %q *)\n", coqStr(ipTag), ipTag)
	fmt.Fprintf(&b, "Definition ip_start_plain : nat := %d.\nDefinition ip_start_tagged : nat := %d.\n\n", sLits[0], sLits[1])
	fmt.Fprintf(&b, "(* canonicalDomain *)\nDefinition canon_tag : list N := %s. (* %q *)\nDefinition canon_skip : nat := %d.\n\n", coqStr(canonTag), canonTag, cdInts[0])
	fmt.Fprintf(&b, "(* every constant above was found in the source *)\nDefinition addr_consts_complete : bool := %v.\n", len(problems) == 0)
	for _, p := range problems {
		fmt.Fprintf(&b, "(* NOT FOUND: %s *)\n", strings.ReplaceAll(strings.ReplaceAll(p, "*)", "* )"), "\"", "'"))
	}
	b.WriteString("\n")

	// read side
	var uses []nameUse
	for _, dir := range []string{"pkg/rest", "pkg/webui"} {
		u, err := nameUses(repo, dir)
		if err != nil {
			return "", err
		}
		uses = append(uses, u...)
	}
	// an empty list (the read side moved) makes read_side_same_name fail to check
	b.WriteString("(* every use of the URL variable \"name\" in pkg/rest and pkg/webui, and how the mailbox name is derived from it *)\n")
	b.WriteString("Definition read_sites : list (list N * name_flow) :=\n  [")
	for i, u := range uses {
		if i > 0 {
			b.WriteString(";\n   ")
		}
		flow := "Verbatim"
		if u.via {
			flow = "ViaMailboxForAddress"
		}
		fmt.Fprintf(&b, "(%s, %s) (* %s *)", coqStr(u.where), flow, u.where)
	}
	b.WriteString("].\n\n")

	// Manager.MailboxForAddress is ExtractMailbox
	_, mf, err := parseFile(repo, "pkg/message/manager.go")
	if err != nil {
		return "", err
	}
	isExtract := false
	if d := findFunc(mf, "StoreManager.MailboxForAddress"); d != nil && d.Body != nil && len(d.Body.List) == 1 {
		if rs, ok := d.Body.List[0].(*ast.ReturnStmt); ok && len(rs.Results) == 1 {
			if ce, ok := rs.Results[0].(*ast.CallExpr); ok && len(ce.Args) == 1 {
				if se, ok := ce.Fun.(*ast.SelectorExpr); ok && se.Sel.Name == "ExtractMailbox" {
					if id, ok := ce.Args[0].(*ast.Ident); ok && len(d.Type.Params.List) == 1 &&
						len(d.Type.Params.List[0].Names) == 1 && d.Type.Params.List[0].Names[0].Name == id.Name {
						isExtract = true
					}
				}
			}
		}
	}
	fmt.Fprintf(&b, "(* StoreManager.MailboxForAddress(x) is exactly `return s.AddrPolicy.ExtractMailbox(x)` *)\nDefinition mailbox_for_address_is_extract : bool := %v.\n\n", isExtract)

	// POP3: how USER/APOP derive the mailbox name
	_, pf, err := parseFile(repo, "pkg/server/pop3/handler.go")
	if err != nil {
		return "", err
	}
	verbatim := 0
	other := 0
	ast.Inspect(pf, func(n ast.Node) bool {
		if as, ok := n.(*ast.AssignStmt); ok && len(as.Lhs) == 1 && len(as.Rhs) == 1 {
			if se, ok := as.Lhs[0].(*ast.SelectorExpr); ok && se.Sel.Name == "user" {
				if ie, ok := as.Rhs[0].(*ast.IndexExpr); ok {
					if id, ok := ie.X.(*ast.Ident); ok && id.Name == "args" {
						verbatim++
						return true
					}
				}
				if bl, ok := as.Rhs[0].(*ast.BasicLit); ok && bl.Kind == token.STRING {
					return true // reset to a constant
				}
				other++
			}
		}
		return true
	})
	flow := "ViaMailboxForAddress"
	if verbatim > 0 {
		flow = "Verbatim"
	}
	fmt.Fprintf(&b, "(* pkg/server/pop3/handler.go: %d assignment(s) `s.user = args[i]`, %d other non-constant assignment(s) *)\nDefinition pop3_user_flow : name_flow := %s.\n", verbatim, other, flow)
	return b.String(), nil
}

package main

// The reply line an extension's deny produces: the fmt.Sprintf sites of pkg/server/smtp/handler.go whose arguments
// are the hook result's ErrorCode and ErrorMsg (MAIL and RCPT). The model's deny_line (Model/Hooks.v) must render that
// format (Proofs/HooksDenyLine.v).

import (
	"fmt"
	"strings"
)

func init() { register("SmtpDeny.v", genSmtpDeny) }

func genSmtpDeny(repo string) (string, error) {
	fset, f, err := parseFile(repo, "pkg/server/smtp/handler.go")
	if err != nil {
		return "", err
	}
	var sites []sprintfSite
	for _, s := range sprintfSites(fset, f) {
		if len(s.args) == 2 && strings.HasSuffix(s.args[0], ".ErrorCode") && strings.HasSuffix(s.args[1], ".ErrorMsg") {
			sites = append(sites, s)
		}
	}
	if len(sites) == 0 {
		return "", fmt.Errorf("no Sprintf(<format>, <result>.ErrorCode, <result>.ErrorMsg) site found in handler.go")
	}
	for _, s := range sites[1:] {
		if s.format != sites[0].format {
			return "", fmt.Errorf("the deny reply sites use different formats: %q and %q", sites[0].format, s.format)
		}
	}
	var b strings.Builder
	b.WriteString(coqHeader("C17: the reply line of an extension's deny (format of the Sprintf sites taking ErrorCode and ErrorMsg)."))
	fmt.Fprintf(&b, "(* %q *)\nDefinition fmt_deny : list N := %s%%N.\n", sites[0].format, coqStr(sites[0].format))
	fmt.Fprintf(&b, "(* sites with this format and these arguments (MAIL, RCPT) *)\nDefinition deny_sites : nat := %d%%nat.\n", len(sites))
	return b.String(), nil
}

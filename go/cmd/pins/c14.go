package main

import (
	"fmt"
	"go/ast"
	"strings"
)

func init() {
	fpRegister("pkg/rest/apiv1_controller.go", "MailboxListV1", "MailboxShowV1", "MailboxMarkSeenV1", "MailboxPurgeV1", "MailboxSourceV1", "MailboxDeleteV1")
	fpRegister("pkg/rest/routes.go", "SetupRoutes")
	fpRegister("pkg/webui/mailbox_controller.go", "MailboxMessage", "MailboxHTML", "MailboxSource", "MailboxViewAttach")
	fpRegister("pkg/webui/routes.go", "SetupRoutes")
	fpRegister("pkg/server/web/handlers.go", "Handler.ServeHTTP")
	fpRegister("pkg/server/web/server.go", "NewServer")
	fpRegister("pkg/rest/client/apiv1_client.go", "Client.ListMailboxWithContext", "Client.GetMessageWithContext", "Client.MarkSeenWithContext",
		"Client.GetMessageSourceWithContext", "Client.DeleteMessageWithContext", "Client.PurgeMailboxWithContext")
	fpRegister("pkg/rest/client/rest.go", "restClient.do", "restClient.doJSON")
	fpRegister("pkg/message/manager.go", "StoreManager.GetMessage", "StoreManager.SourceReader", "StoreManager.MarkSeen",
		"StoreManager.RemoveMessage", "StoreManager.PurgeMessages", "StoreManager.MailboxForAddress", "StoreManager.GetMetadata")
}

// ---- route tables (translator): the templates, handler names and methods registered by
// pkg/rest/routes.go and pkg/webui/routes.go, in source order, and the mount points / client prefix.

func init() { register("RestRoutes.v", genRestRoutes) }

type routeEnt struct{ tpl, name, method string }

func routesOf(repo, rel string) ([]routeEnt, error) {
	_, f, err := parseFile(repo, rel)
	if err != nil {
		return nil, err
	}
	d := findFunc(f, "SetupRoutes")
	if d == nil {
		return nil, fmt.Errorf("%s: SetupRoutes not found", rel)
	}
	var out []routeEnt
	for _, st := range d.Body.List {
		es, ok := st.(*ast.ExprStmt)
		if !ok {
			continue
		}
		var e routeEnt
		var cur ast.Expr = es.X
		for {
			c, ok := cur.(*ast.CallExpr)
			if !ok {
				break
			}
			s, ok := c.Fun.(*ast.SelectorExpr)
			if !ok {
				break
			}
			if len(c.Args) > 0 {
				if v, ok := litString(c.Args[0]); ok {
					switch s.Sel.Name {
					case "Path":
						e.tpl = v
					case "Name":
						e.name = v
					case "Methods":
						if len(c.Args) != 1 {
							return nil, fmt.Errorf("%s: route with several methods", rel)
						}
						e.method = v
					}
				}
			}
			cur = s.X
		}
		if e.tpl == "" || e.name == "" || e.method == "" {
			return nil, fmt.Errorf("%s: statement in SetupRoutes is not Path(..).Handler(..).Name(..).Methods(..)", rel)
		}
		out = append(out, e)
	}
	return out, nil
}

func coqRoutes(rs []routeEnt) string {
	parts := make([]string, len(rs))
	for i, r := range rs {
		parts[i] = fmt.Sprintf("(%s, %s, %s)", coqStr(r.tpl), coqStr(r.name), coqStr(r.method))
	}
	return "[" + strings.Join(parts, ";\n   ") + "]"
}

func genRestRoutes(repo string) (string, error) {
	api, err := routesOf(repo, "pkg/rest/routes.go")
	if err != nil {
		return "", err
	}
	ui, err := routesOf(repo, "pkg/webui/routes.go")
	if err != nil {
		return "", err
	}
	// mount points in server.FullAssembly: prefix("/serve/"), prefix("/api/")
	_, lf, err := parseFile(repo, "pkg/server/lifecycle.go")
	if err != nil {
		return "", err
	}
	fa := findFunc(lf, "FullAssembly")
	if fa == nil {
		return "", fmt.Errorf("FullAssembly not found")
	}
	var mounts []string
	for _, c := range callsNamed2(fa, "prefix") {
		if len(c.Args) == 1 {
			if v, ok := litString(c.Args[0]); ok {
				mounts = append(mounts, v)
			}
		}
	}
	// the client's URI prefix
	_, cf, err := parseFile(repo, "pkg/rest/client/apiv1_client.go")
	if err != nil {
		return "", err
	}
	seen := map[string]bool{}
	var cpre []string
	for _, fn := range []string{"Client.ListMailboxWithContext", "Client.GetMessageWithContext", "Client.MarkSeenWithContext",
		"Client.GetMessageSourceWithContext", "Client.DeleteMessageWithContext", "Client.PurgeMailboxWithContext"} {
		d := findFunc(cf, fn)
		if d == nil {
			return "", fmt.Errorf("%s not found", fn)
		}
		for _, s := range stringLits(d) {
			if strings.HasPrefix(s, "/api/") && !seen[s] {
				seen[s] = true
				cpre = append(cpre, s)
			}
		}
	}
	var b strings.Builder
	b.WriteString(coqHeader("Route tables of pkg/rest/routes.go and pkg/webui/routes.go (template, route name, method; source order), their mount points in server.FullAssembly, and the URI prefix(es) used by pkg/rest/client."))
	b.WriteString("Definition api_routes : list (list N * list N * list N) :=\n  " + coqRoutes(api) + ".\n\n")
	b.WriteString("Definition ui_routes : list (list N * list N * list N) :=\n  " + coqRoutes(ui) + ".\n\n")
	b.WriteString("Definition mount_points : list (list N) :=\n  " + coqStrList(mounts) + ".\n\n")
	b.WriteString("Definition client_prefixes : list (list N) :=\n  " + coqStrList(cpre) + ".\n")
	return b.String(), nil
}

// callsNamed2 returns the calls `fn(...)` of a plain identifier inside a function, in source order.
func callsNamed2(d *ast.FuncDecl, fn string) []*ast.CallExpr {
	var out []*ast.CallExpr
	ast.Inspect(d, func(n ast.Node) bool {
		if c, ok := n.(*ast.CallExpr); ok {
			if id, ok := c.Fun.(*ast.Ident); ok && id.Name == fn {
				out = append(out, c)
			}
		}
		return true
	})
	return out
}

package main

import (
	"bytes"
	"fmt"
	"go/ast"
	"go/printer"
	"go/token"
	"os"
	"path/filepath"
	"reflect"
	"strconv"
	"strings"
)

func init() {
	fpRegister("pkg/rest/apiv1_controller.go", "MailboxListV1", "MailboxShowV1", "MailboxMarkSeenV1", "MailboxPurgeV1", "MailboxSourceV1", "MailboxDeleteV1")
	fpRegister("pkg/rest/routes.go", "SetupRoutes")
	fpRegister("pkg/webui/mailbox_controller.go", "MailboxMessage", "MailboxHTML", "MailboxSource", "MailboxViewAttach")
	fpRegister("pkg/webui/routes.go", "SetupRoutes")
	fpRegister("pkg/server/web/handlers.go", "Handler.ServeHTTP")
	fpRegister("pkg/server/web/server.go", "NewServer")
	fpRegister("pkg/rest/client/apiv1_client.go", "Client.ListMailboxWithContext", "Client.GetMessageWithContext", "Client.MarkSeenWithContext",
		"Client.GetMessageSourceWithContext", "Client.DeleteMessageWithContext", "Client.PurgeMailboxWithContext")
	fpRegister("pkg/rest/client/rest.go", "restClient.do", "restClient.doJSON")
	fpRegister("pkg/message/manager.go", "StoreManager.GetMessage", "StoreManager.SourceReader", "StoreManager.MarkSeen",
		"StoreManager.RemoveMessage", "StoreManager.PurgeMessages", "StoreManager.MailboxForAddress", "StoreManager.GetMetadata")
}

// ---- route tables (translator): the templates, handler names and methods registered by
// pkg/rest/routes.go and pkg/webui/routes.go, in source order, and the mount points / client prefix.

func init() { register("RestRoutes.v", genRestRoutes) }

type routeEnt struct{ tpl, name, method string }

func routesOf(repo, rel string) ([]routeEnt, error) {
	_, f, err := parseFile(repo, rel)
	if err != nil {
		return nil, err
	}
	d := findFunc(f, "SetupRoutes")
	if d == nil {
		return nil, fmt.Errorf("%s: SetupRoutes not found", rel)
	}
	var out []routeEnt
	for _, st := range d.Body.List {
		es, ok := st.(*ast.ExprStmt)
		if !ok {
			continue
		}
		var e routeEnt
		var cur ast.Expr = es.X
		for {
			c, ok := cur.(*ast.CallExpr)
			if !ok {
				break
			}
			s, ok := c.Fun.(*ast.SelectorExpr)
			if !ok {
				break
			}
			if len(c.Args) > 0 {
				if v, ok := litString(c.Args[0]); ok {
					switch s.Sel.Name {
					case "Path":
						e.tpl = v
					case "Name":
						e.name = v
					case "Methods":
						if len(c.Args) != 1 {
							return nil, fmt.Errorf("%s: route with several methods", rel)
						}
						e.method = v
					}
				}
			}
			cur = s.X
		}
		if e.tpl == "" || e.name == "" || e.method == "" {
			return nil, fmt.Errorf("%s: statement in SetupRoutes is not Path(..).Handler(..).Name(..).Methods(..)", rel)
		}
		out = append(out, e)
	}
	return out, nil
}

func coqRoutes(rs []routeEnt) string {
	parts := make([]string, len(rs))
	for i, r := range rs {
		parts[i] = fmt.Sprintf("(%s, %s, %s)", coqStr(r.tpl), coqStr(r.name), coqStr(r.method))
	}
	return "[" + strings.Join(parts, ";\n   ") + "]"
}

func genRestRoutes(repo string) (string, error) {
	api, err := routesOf(repo, "pkg/rest/routes.go")
	if err != nil {
		return "", err
	}
	ui, err := routesOf(repo, "pkg/webui/routes.go")
	if err != nil {
		return "", err
	}
	// mount points in server.FullAssembly: prefix("/serve/"), prefix("/api/")
	_, lf, err := parseFile(repo, "pkg/server/lifecycle.go")
	if err != nil {
		return "", err
	}
	fa := findFunc(lf, "FullAssembly")
	if fa == nil {
		return "", fmt.Errorf("FullAssembly not found")
	}
	var mounts []string
	for _, c := range callsNamed2(fa, "prefix") {
		if len(c.Args) == 1 {
			if v, ok := litString(c.Args[0]); ok {
				mounts = append(mounts, v)
			}
		}
	}
	// the client's URI prefix
	_, cf, err := parseFile(repo, "pkg/rest/client/apiv1_client.go")
	if err != nil {
		return "", err
	}
	seen := map[string]bool{}
	var cpre []string
	for _, fn := range []string{"Client.ListMailboxWithContext", "Client.GetMessageWithContext", "Client.MarkSeenWithContext",
		"Client.GetMessageSourceWithContext", "Client.DeleteMessageWithContext", "Client.PurgeMailboxWithContext"} {
		d := findFunc(cf, fn)
		if d == nil {
			return "", fmt.Errorf("%s not found", fn)
		}
		for _, s := range stringLits(d) {
			if strings.HasPrefix(s, "/api/") && !seen[s] {
				seen[s] = true
				cpre = append(cpre, s)
			}
		}
	}
	var b strings.Builder
	b.WriteString(coqHeader("Route tables of pkg/rest/routes.go and pkg/webui/routes.go (template, route name, method; source order), their mount points in server.FullAssembly, and the URI prefix(es) used by pkg/rest/client."))
	b.WriteString("Definition api_routes : list (list N * list N * list N) :=\n  " + coqRoutes(api) + ".\n\n")
	b.WriteString("Definition ui_routes : list (list N * list N * list N) :=\n  " + coqRoutes(ui) + ".\n\n")
	b.WriteString("Definition mount_points : list (list N) :=\n  " + coqStrList(mounts) + ".\n\n")
	b.WriteString("Definition client_prefixes : list (list N) :=\n  " + coqStrList(cpre) + ".\n")
	return b.String(), nil
}

// callsNamed2 returns the calls `fn(...)` of a plain identifier inside a function, in source order.
func callsNamed2(d *ast.FuncDecl, fn string) []*ast.CallExpr {
	var out []*ast.CallExpr
	ast.Inspect(d, func(n ast.Node) bool {
		if c, ok := n.(*ast.CallExpr); ok {
			if id, ok := c.Fun.(*ast.Ident); ok && id.Name == fn {
				out = append(out, c)
			}
		}
		return true
	})
	return out
}

// ---- JSON models, handler field assignments, status codes and content types (translator) ------------------

func init() { register("RestJson.v", genRestJson) }

type tagEnt struct{ field, json string }

// structTags returns (Go field, json name) of every field of a struct type, in source order; an embedded field is
// reported as ("*T" or "T", "").
func structTags(f *ast.File, name string) ([]tagEnt, error) {
	for _, d := range f.Decls {
		gd, ok := d.(*ast.GenDecl)
		if !ok {
			continue
		}
		for _, sp := range gd.Specs {
			ts, ok := sp.(*ast.TypeSpec)
			if !ok || ts.Name.Name != name {
				continue
			}
			st, ok := ts.Type.(*ast.StructType)
			if !ok {
				return nil, fmt.Errorf("%s is not a struct", name)
			}
			var out []tagEnt
			for _, fl := range st.Fields.List {
				js := ""
				if fl.Tag != nil {
					raw, _ := strconv.Unquote(fl.Tag.Value)
					js = reflect.StructTag(raw).Get("json")
				}
				if len(fl.Names) == 0 {
					var b bytes.Buffer
					printer.Fprint(&b, token.NewFileSet(), fl.Type)
					out = append(out, tagEnt{b.String(), js})
					continue
				}
				for _, n := range fl.Names {
					out = append(out, tagEnt{n.Name, js})
				}
			}
			return out, nil
		}
	}
	return nil, fmt.Errorf("struct %s not found", name)
}

// literalFields returns, for the composite literals of struct type `typ` (possibly qualified) inside a function,
// the (field, expression) pairs in source order.
func literalFields(fset *token.FileSet, d *ast.FuncDecl, typ string) [][]tagEnt {
	var out [][]tagEnt
	ast.Inspect(d, func(n ast.Node) bool {
		cl, ok := n.(*ast.CompositeLit)
		if !ok || cl.Type == nil {
			return true
		}
		tn := exprText(fset, cl.Type)
		if tn != typ && !strings.HasSuffix(tn, "."+typ) {
			return true
		}
		var ents []tagEnt
		for _, e := range cl.Elts {
			kv, ok := e.(*ast.KeyValueExpr)
			if !ok {
				continue
			}
			ents = append(ents, tagEnt{exprText(fset, kv.Key), strings.Join(strings.Fields(exprText(fset, kv.Value)), " ")})
		}
		out = append(out, ents)
		return true
	})
	return out
}

func coqPairs(ps []tagEnt) string {
	parts := make([]string, len(ps))
	for i, p := range ps {
		parts[i] = fmt.Sprintf("(%s, %s)", coqStr(p.field), coqStr(p.json))
	}
	return "[" + strings.Join(parts, ";\n   ") + "]"
}

// answerFacts: per handler, in source order: "404" for each http.NotFound, "ct:<literal or expr>" for each
// Content-Type it sets, "json" for each web.RenderJSON.
func answerFacts(fset *token.FileSet, d *ast.FuncDecl) []string {
	var out []string
	ast.Inspect(d, func(n ast.Node) bool {
		c, ok := n.(*ast.CallExpr)
		if !ok {
			return true
		}
		t := exprText(fset, c.Fun)
		switch {
		case t == "http.NotFound":
			out = append(out, "404")
		case t == "web.RenderJSON":
			out = append(out, "json")
		case strings.HasSuffix(t, "Header().Set") && len(c.Args) == 2:
			if k, ok := litString(c.Args[0]); ok && k == "Content-Type" {
				if v, ok := litString(c.Args[1]); ok {
					out = append(out, "ct:"+v)
				} else {
					out = append(out, "ct:="+exprText(fset, c.Args[1]))
				}
			}
		}
		return true
	})
	return out
}

func genRestJson(repo string) (string, error) {
	_, mf, err := parseFile(repo, "pkg/rest/model/apiv1_model.go")
	if err != nil {
		return "", err
	}
	_, uf, err := parseFile(repo, "pkg/webui/mailbox_json.go")
	if err != nil {
		return "", err
	}
	fsR, rf, err := parseFile(repo, "pkg/rest/apiv1_controller.go")
	if err != nil {
		return "", err
	}
	fsU, cf, err := parseFile(repo, "pkg/webui/mailbox_controller.go")
	if err != nil {
		return "", err
	}
	_, clf, err := parseFile(repo, "pkg/rest/client/apiv1_client.go")
	if err != nil {
		return "", err
	}
	fsW, wf, err := parseFile(repo, "pkg/server/web/rest.go")
	if err != nil {
		return "", err
	}
	fsH, hf, err := parseFile(repo, "pkg/server/web/handlers.go")
	if err != nil {
		return "", err
	}
	var b strings.Builder
	b.WriteString(coqHeader("C14: JSON models (Go field, json name) of pkg/rest/model and pkg/webui, the decoding structs of pkg/rest/client, the expression every handler puts into every field, and per handler the 404s, content types and JSON renderings in source order."))
	for _, s := range []struct {
		f    *ast.File
		name string
		coq  string
	}{{mf, "JSONMessageHeaderV1", "tags_header_v1"}, {mf, "JSONMessageV1", "tags_message_v1"}, {mf, "JSONMessageBodyV1", "tags_body_v1"},
		{mf, "JSONMessageAttachmentV1", "tags_attachment_v1"}, {uf, "jsonMessage", "tags_ui_message"}, {uf, "jsonAttachment", "tags_ui_attachment"},
		{uf, "jsonMIMEError", "tags_ui_error"}, {clf, "MessageHeader", "tags_client_header"}, {clf, "Message", "tags_client_message"}} {
		ts, err := structTags(s.f, s.name)
		if err != nil {
			return "", err
		}
		fmt.Fprintf(&b, "(* struct %s *)\nDefinition %s : list (list N * list N) :=\n  %s%%N.\n\n", s.name, s.coq, coqPairs(ts))
	}
	lit := func(fset *token.FileSet, f *ast.File, fn, typ, coq string) error {
		d := findFunc(f, fn)
		if d == nil {
			return fmt.Errorf("%s not found", fn)
		}
		ls := literalFields(fset, d, typ)
		if len(ls) != 1 {
			return fmt.Errorf("%s: expected one %s literal, found %d", fn, typ, len(ls))
		}
		fmt.Fprintf(&b, "(* %s: %s{...} *)\nDefinition %s : list (list N * list N) :=\n  %s%%N.\n\n", fn, typ, coq, coqPairs(ls[0]))
		return nil
	}
	for _, l := range []struct {
		fs           *token.FileSet
		f            *ast.File
		fn, typ, coq string
	}{{fsR, rf, "MailboxListV1", "JSONMessageHeaderV1", "fill_list_header"}, {fsR, rf, "MailboxShowV1", "JSONMessageV1", "fill_show_message"},
		{fsR, rf, "MailboxShowV1", "JSONMessageBodyV1", "fill_show_body"}, {fsR, rf, "MailboxShowV1", "JSONMessageAttachmentV1", "fill_show_attachment"},
		{fsU, cf, "MailboxMessage", "jsonMessage", "fill_ui_message"}, {fsU, cf, "MailboxMessage", "jsonAttachment", "fill_ui_attachment"},
		{fsU, cf, "MailboxMessage", "jsonMIMEError", "fill_ui_error"}} {
		if err := lit(l.fs, l.f, l.fn, l.typ, l.coq); err != nil {
			return "", err
		}
	}
	facts := func(fset *token.FileSet, f *ast.File, fn, coq string) error {
		d := findFunc(f, fn)
		if d == nil {
			return fmt.Errorf("%s not found", fn)
		}
		fmt.Fprintf(&b, "Definition %s : list (list N) :=\n  %s%%N.\n", coq, coqStrList(answerFacts(fset, d)))
		return nil
	}
	for _, h := range []struct {
		fs      *token.FileSet
		f       *ast.File
		fn, coq string
	}{{fsR, rf, "MailboxListV1", "ans_list"}, {fsR, rf, "MailboxShowV1", "ans_show"}, {fsR, rf, "MailboxMarkSeenV1", "ans_seen"},
		{fsR, rf, "MailboxPurgeV1", "ans_purge"}, {fsR, rf, "MailboxSourceV1", "ans_source"}, {fsR, rf, "MailboxDeleteV1", "ans_delete"},
		{fsU, cf, "MailboxMessage", "ans_ui_message"}, {fsU, cf, "MailboxHTML", "ans_ui_html"}, {fsU, cf, "MailboxSource", "ans_ui_source"},
		{fsU, cf, "MailboxViewAttach", "ans_ui_attach"}} {
		if err := facts(h.fs, h.f, h.fn, h.coq); err != nil {
			return "", err
		}
	}
	// web.RenderJSON: the content type it sets; web.Handler.ServeHTTP: the status of a handler error
	rj := findFunc(wf, "RenderJSON")
	sh := findFunc(hf, "Handler.ServeHTTP")
	if rj == nil || sh == nil {
		return "", fmt.Errorf("web.RenderJSON / web.Handler.ServeHTTP not found")
	}
	fmt.Fprintf(&b, "Definition ans_render_json : list (list N) :=\n  %s%%N.\n", coqStrList(answerFacts(fsW, rj)))
	var errStatus []string
	ast.Inspect(sh, func(n ast.Node) bool {
		if c, ok := n.(*ast.CallExpr); ok && exprText(fsH, c.Fun) == "http.Error" && len(c.Args) == 3 {
			errStatus = append(errStatus, exprText(fsH, c.Args[2]))
		}
		return true
	})
	fmt.Fprintf(&b, "Definition handler_error_status : list (list N) :=\n  %s%%N.\n\n", coqStrList(errStatus))
	// the structs the C14 driver decodes the answers into (go/cmd/c14/main.go): their json names must be names of
	// the source's structs, otherwise the driver would silently read zero values
	if root := verifRoot(); root != "" {
		_, df, err := parseFile(root, "go/cmd/c14/main.go")
		if err != nil {
			return "", err
		}
		for _, s := range []struct{ name, coq string }{{"jhdr", "driver_tags_message"}, {"jatt", "driver_tags_attachment"}} {
			ts, err := structTags(df, s.name)
			if err != nil {
				return "", err
			}
			fmt.Fprintf(&b, "(* driver struct %s *)\nDefinition %s : list (list N * list N) :=\n  %s%%N.\n\n", s.name, s.coq, coqPairs(ts))
		}
	} else {
		b.WriteString("Definition driver_tags_message : list (list N * list N) := [].\nDefinition driver_tags_attachment : list (list N * list N) := [].\n")
	}
	return b.String(), nil
}

// verifRoot: the root of the verification tree, from the -out argument (<root>/coq/Gen).
func verifRoot() string {
	for i, a := range os.Args {
		if a == "-out" && i+1 < len(os.Args) {
			d := filepath.Clean(os.Args[i+1])
			if filepath.Base(d) == "Gen" && filepath.Base(filepath.Dir(d)) == "coq" {
				return filepath.Dir(filepath.Dir(d))
			}
		}
	}
	return ""
}

package main

func init() {
	fpRegister("pkg/rest/apiv1_controller.go", "MailboxListV1", "MailboxShowV1", "MailboxMarkSeenV1", "MailboxPurgeV1", "MailboxSourceV1", "MailboxDeleteV1")
	fpRegister("pkg/rest/routes.go", "SetupRoutes")
	fpRegister("pkg/webui/mailbox_controller.go", "MailboxMessage", "MailboxHTML", "MailboxSource", "MailboxViewAttach")
	fpRegister("pkg/webui/routes.go", "SetupRoutes")
	fpRegister("pkg/server/web/handlers.go", "Handler.ServeHTTP")
	fpRegister("pkg/server/web/server.go", "NewServer")
	fpRegister("pkg/rest/client/apiv1_client.go", "Client.ListMailboxWithContext", "Client.GetMessageWithContext", "Client.MarkSeenWithContext",
		"Client.GetMessageSourceWithContext", "Client.DeleteMessageWithContext", "Client.PurgeMailboxWithContext")
	fpRegister("pkg/rest/client/rest.go", "restClient.do", "restClient.doJSON")
	fpRegister("pkg/message/manager.go", "StoreManager.GetMessage", "StoreManager.SourceReader", "StoreManager.MarkSeen",
		"StoreManager.RemoveMessage", "StoreManager.PurgeMessages", "StoreManager.MailboxForAddress", "StoreManager.GetMetadata")
}

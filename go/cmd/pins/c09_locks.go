package main

// C09: the synchronisation skeleton of the two stores, read from the source with go/ast and written to
// coq/Gen/StoreLocks.v (type Model/ConcSk.v): for every function of pkg/storage/mem/{store,maxsize}.go and
// pkg/storage/file/{fstore,mbox,fmessage}.go the lock / unlock calls (receiver expression as the lock's name), the channel
// operations, the calls to other functions of the same table, the calls of function-typed parameters (callbacks), the
// instrumentation points (memory store only: those are the model's program counters) and the control structure
// around them. Functions and statements without any of these are pruned. Proofs/ConcLocks.v proves the discipline
// on the regenerated tables (no lock is acquired while one is held, no rendezvous and no foreign callback under a
// lock, every path releases what it took) and ties the memory store's table to the model.

import (
	"bytes"
	"fmt"
	"go/ast"
	"go/printer"
	"go/token"
	"sort"
	"strconv"
	"strings"
)

func init() { register("StoreLocks.v", genStoreLocks) }

type skEv struct {
	kind string // Lock RLock Unlock RUnlock With Call Callback Go Point Send Recv Close Alt Loop Defer Return Break Continue
	arg  string
	kids [][]skEv // With/Loop/Defer: one list; Alt: one per arm
}

type skGen struct {
	fset    *token.FileSet
	byBare  map[string][]string // bare function name -> qualified names in the table
	points  bool                // emit KPoint
	ctl     bool                // current function has lock primitives: emit Return/Break/Continue
	cbNames map[string]bool     // function-typed parameters of the current function
	err     error
}

var lockPrims = map[string]string{"Lock": "Lock", "RLock": "RLock", "Unlock": "Unlock", "RUnlock": "RUnlock"}

func (g *skGen) src(n ast.Node) string {
	var b bytes.Buffer
	printer.Fprint(&b, g.fset, n)
	return b.String()
}

func lastSel(e ast.Expr) string {
	switch x := e.(type) {
	case *ast.SelectorExpr:
		return x.Sel.Name
	case *ast.Ident:
		return x.Name
	case *ast.ParenExpr:
		return lastSel(x.X)
	}
	return "?"
}

func (g *skGen) resolve(bare string) (string, bool) {
	q := g.byBare[bare]
	if len(q) == 0 {
		return "", false
	}
	if len(q) > 1 {
		g.err = fmt.Errorf("call of %s is ambiguous between %v", bare, q)
	}
	return q[0], true
}

// expr: events of an expression in evaluation order (operands before the call that uses them).
func (g *skGen) expr(e ast.Expr) []skEv {
	var out []skEv
	switch x := e.(type) {
	case nil:
	case *ast.CallExpr:
		// withMailbox(mailbox, mode, func(mb *mbox) {...}): the closure is the body run under the mailbox lock
		if sel, ok := x.Fun.(*ast.SelectorExpr); ok && sel.Sel.Name == "withMailbox" && len(x.Args) == 3 {
			if fl, ok := x.Args[2].(*ast.FuncLit); ok {
				out = append(out, g.expr(sel.X)...)
				out = append(out, g.expr(x.Args[0])...)
				out = append(out, g.expr(x.Args[1])...)
				saveCtl := g.ctl
				g.ctl = hasPrim(fl.Body)
				body := g.stmts(fl.Body.List)
				g.ctl = saveCtl
				return append(out, skEv{kind: "With", arg: g.src(x.Args[1]), kids: [][]skEv{body}})
			}
		}
		switch f := x.Fun.(type) {
		case *ast.SelectorExpr:
			out = append(out, g.expr(f.X)...)
		case *ast.FuncLit:
			// func(){...}(): runs in place
			for _, a := range x.Args {
				out = append(out, g.expr(a)...)
			}
			return append(out, g.stmts(f.Body.List)...)
		default:
			out = append(out, g.expr(x.Fun)...)
		}
		for _, a := range x.Args {
			out = append(out, g.expr(a)...)
		}
		switch f := x.Fun.(type) {
		case *ast.SelectorExpr:
			if k, ok := lockPrims[f.Sel.Name]; ok && len(x.Args) == 0 {
				if _, declared := g.byBare[f.Sel.Name]; !declared {
					return append(out, skEv{kind: k, arg: g.src(f.X)})
				}
			}
			if id, ok := f.X.(*ast.Ident); ok && id.Name == "verifhook" && f.Sel.Name == "Point" {
				if g.points && len(x.Args) > 0 {
					if bl, ok := x.Args[0].(*ast.BasicLit); ok && bl.Kind == token.STRING {
						s, _ := strconv.Unquote(bl.Value)
						return append(out, skEv{kind: "Point", arg: s})
					}
				}
				return out
			}
			if q, ok := g.resolve(f.Sel.Name); ok {
				return append(out, skEv{kind: "Call", arg: q})
			}
		case *ast.Ident:
			if f.Name == "close" && len(x.Args) == 1 {
				return append(out, skEv{kind: "Close", arg: lastSel(x.Args[0])})
			}
			if g.cbNames[f.Name] {
				return append(out, skEv{kind: "Callback", arg: f.Name})
			}
			if q, ok := g.resolve(f.Name); ok {
				return append(out, skEv{kind: "Call", arg: q})
			}
		}
		return out
	case *ast.UnaryExpr:
		out = g.expr(x.X)
		if x.Op == token.ARROW {
			out = append(out, skEv{kind: "Recv", arg: lastSel(x.X)})
		}
		return out
	case *ast.FuncLit:
		// a closure handed to foreign code (sort.Slice ...): may run, in place, any number of times
		body := g.stmts(x.Body.List)
		if len(body) > 0 {
			return []skEv{{kind: "Loop", kids: [][]skEv{body}}}
		}
		return nil
	case *ast.BinaryExpr:
		return append(g.expr(x.X), g.expr(x.Y)...)
	case *ast.ParenExpr:
		return g.expr(x.X)
	case *ast.SelectorExpr:
		return g.expr(x.X)
	case *ast.StarExpr:
		return g.expr(x.X)
	case *ast.IndexExpr:
		return append(g.expr(x.X), g.expr(x.Index)...)
	case *ast.SliceExpr:
		out = g.expr(x.X)
		out = append(out, g.expr(x.Low)...)
		out = append(out, g.expr(x.High)...)
		return append(out, g.expr(x.Max)...)
	case *ast.TypeAssertExpr:
		return g.expr(x.X)
	case *ast.KeyValueExpr:
		return append(g.expr(x.Key), g.expr(x.Value)...)
	case *ast.CompositeLit:
		for _, el := range x.Elts {
			out = append(out, g.expr(el)...)
		}
		return out
	}
	return out
}

func (g *skGen) stmts(list []ast.Stmt) []skEv {
	var out []skEv
	for _, s := range list {
		out = append(out, g.stmt(s)...)
	}
	return out
}

func (g *skGen) stmt(s ast.Stmt) []skEv {
	var out []skEv
	switch x := s.(type) {
	case nil:
	case *ast.ExprStmt:
		return g.expr(x.X)
	case *ast.AssignStmt:
		for _, e := range x.Rhs {
			out = append(out, g.expr(e)...)
		}
		for _, e := range x.Lhs {
			out = append(out, g.expr(e)...)
		}
		return out
	case *ast.DeclStmt:
		if gd, ok := x.Decl.(*ast.GenDecl); ok {
			for _, sp := range gd.Specs {
				if vs, ok := sp.(*ast.ValueSpec); ok {
					for _, v := range vs.Values {
						out = append(out, g.expr(v)...)
					}
				}
			}
		}
		return out
	case *ast.SendStmt:
		out = append(g.expr(x.Chan), g.expr(x.Value)...)
		return append(out, skEv{kind: "Send", arg: lastSel(x.Chan)})
	case *ast.DeferStmt:
		body := g.expr(x.Call)
		if len(body) > 0 {
			return []skEv{{kind: "Defer", kids: [][]skEv{body}}}
		}
		return nil
	case *ast.GoStmt:
		for _, a := range x.Call.Args {
			out = append(out, g.expr(a)...)
		}
		name := lastSel(x.Call.Fun)
		if q, ok := g.resolve(name); ok {
			return append(out, skEv{kind: "Go", arg: q})
		}
		if fl, ok := x.Call.Fun.(*ast.FuncLit); ok && len(g.stmts(fl.Body.List)) > 0 {
			g.err = fmt.Errorf("go func(){...} with synchronisation inside is not supported")
		}
		return out
	case *ast.ReturnStmt:
		for _, e := range x.Results {
			out = append(out, g.expr(e)...)
		}
		if g.ctl {
			out = append(out, skEv{kind: "Return"})
		}
		return out
	case *ast.BranchStmt:
		switch x.Tok {
		case token.BREAK, token.CONTINUE:
			if x.Label != nil {
				g.err = fmt.Errorf("labelled break/continue is not supported")
			}
			if g.ctl {
				if x.Tok == token.BREAK {
					return []skEv{{kind: "Break"}}
				}
				return []skEv{{kind: "Continue"}}
			}
		default:
			g.err = fmt.Errorf("goto/fallthrough is not supported")
		}
		return nil
	case *ast.BlockStmt:
		return g.stmts(x.List)
	case *ast.LabeledStmt:
		return g.stmt(x.Stmt)
	case *ast.IfStmt:
		out = append(g.stmt(x.Init), g.expr(x.Cond)...)
		thenB := g.stmts(x.Body.List)
		elseB := g.stmt(x.Else)
		return append(out, skEv{kind: "Alt", kids: [][]skEv{thenB, elseB}})
	case *ast.ForStmt:
		out = g.stmt(x.Init)
		body := g.expr(x.Cond)
		body = append(body, g.stmts(x.Body.List)...)
		body = append(body, g.stmt(x.Post)...)
		return append(out, skEv{kind: "Loop", kids: [][]skEv{body}})
	case *ast.RangeStmt:
		out = g.expr(x.X)
		return append(out, skEv{kind: "Loop", kids: [][]skEv{g.stmts(x.Body.List)}})
	case *ast.SwitchStmt:
		out = append(g.stmt(x.Init), g.expr(x.Tag)...)
		return append(out, g.clauses(x.Body.List, false))
	case *ast.TypeSwitchStmt:
		out = append(g.stmt(x.Init), g.stmt(x.Assign)...)
		return append(out, g.clauses(x.Body.List, false))
	case *ast.SelectStmt:
		return []skEv{g.clauses(x.Body.List, true)}
	case *ast.IncDecStmt, *ast.EmptyStmt:
		return nil
	default:
		g.err = fmt.Errorf("statement %T is not supported", s)
	}
	return out
}

// clauses: one arm per case; a switch without default has the empty arm as well. Inside a switch/select a plain
// `break` leaves the switch, not the loop: not supported when control statements matter.
func (g *skGen) clauses(list []ast.Stmt, isSelect bool) skEv {
	ev := skEv{kind: "Alt"}
	hasDefault := false
	for _, c := range list {
		var arm []skEv
		switch cc := c.(type) {
		case *ast.CaseClause:
			if cc.List == nil {
				hasDefault = true
			}
			for _, e := range cc.List {
				arm = append(arm, g.expr(e)...)
			}
			arm = append(arm, g.stmts(cc.Body)...)
		case *ast.CommClause:
			if cc.Comm == nil {
				hasDefault = true
			}
			arm = append(arm, g.stmt(cc.Comm)...)
			arm = append(arm, g.stmts(cc.Body)...)
		}
		for _, e := range arm {
			if e.kind == "Break" {
				g.err = fmt.Errorf("break inside switch/select is not supported")
			}
		}
		ev.kids = append(ev.kids, arm)
	}
	if !hasDefault && !isSelect {
		ev.kids = append(ev.kids, nil)
	}
	return ev
}

func hasPrim(n ast.Node) bool {
	found := false
	ast.Inspect(n, func(x ast.Node) bool {
		if ce, ok := x.(*ast.CallExpr); ok {
			if sel, ok := ce.Fun.(*ast.SelectorExpr); ok {
				if _, ok := lockPrims[sel.Sel.Name]; ok && len(ce.Args) == 0 {
					found = true
				}
			}
		}
		return !found
	})
	return found
}

// prune drops calls to functions without synchronisation and the control structure left empty by that.
func skPrune(evs []skEv, relevant map[string]bool) []skEv {
	var out []skEv
	for _, e := range evs {
		switch e.kind {
		case "Call", "Go":
			if !relevant[e.arg] {
				continue
			}
		case "Loop", "Defer":
			e.kids = [][]skEv{skPrune(e.kids[0], relevant)}
			if len(e.kids[0]) == 0 {
				continue
			}
		case "With":
			e.kids = [][]skEv{skPrune(e.kids[0], relevant)}
		case "Alt":
			kids := make([][]skEv, len(e.kids))
			n := 0
			for i, k := range e.kids {
				kids[i] = skPrune(k, relevant)
				n += len(kids[i])
			}
			e.kids = kids
			if n == 0 {
				continue
			}
		}
		out = append(out, e)
	}
	return out
}

func skSubstance(evs []skEv) bool {
	for _, e := range evs {
		switch e.kind {
		case "Return", "Break", "Continue":
		case "Loop", "Defer", "Alt":
			for _, k := range e.kids {
				if skSubstance(k) {
					return true
				}
			}
		default:
			return true
		}
	}
	return false
}

func coqString(s string) string { return "\"" + strings.ReplaceAll(s, "\"", "\"\"") + "\"" }

func skRender(evs []skEv, ind string) string {
	if len(evs) == 0 {
		return "[]"
	}
	parts := make([]string, len(evs))
	for i, e := range evs {
		switch e.kind {
		case "Return", "Break", "Continue":
			parts[i] = "K" + e.kind
		case "With":
			parts[i] = "KWith " + coqString(e.arg) + " " + skRender(e.kids[0], ind+"  ")
		case "Loop", "Defer":
			parts[i] = "K" + e.kind + " " + skRender(e.kids[0], ind+"  ")
		case "Alt":
			arms := make([]string, len(e.kids))
			for j, k := range e.kids {
				arms[j] = skRender(k, ind+"    ")
			}
			parts[i] = "KAlt [" + strings.Join(arms, ";\n"+ind+"      ") + "]"
		default:
			parts[i] = "K" + e.kind + " " + coqString(e.arg)
		}
	}
	return "[" + strings.Join(parts, ";\n"+ind+" ") + "]"
}

// skTable builds the pruned table of the functions declared in files (relative to repo).
func skTable(repo string, files []string, points bool) (string, []string, error) {
	type fn struct {
		name string
		decl *ast.FuncDecl
		fset *token.FileSet
	}
	var fns []fn
	byBare := map[string][]string{}
	for _, rel := range files {
		fset, f, err := parseFile(repo, rel)
		if err != nil {
			return "", nil, err
		}
		for _, d := range f.Decls {
			if fd, ok := d.(*ast.FuncDecl); ok && fd.Body != nil {
				q := funcName(fd)
				fns = append(fns, fn{q, fd, fset})
				byBare[fd.Name.Name] = append(byBare[fd.Name.Name], q)
			}
		}
	}
	sk := map[string][]skEv{}
	for _, f := range fns {
		g := &skGen{fset: f.fset, byBare: byBare, points: points, ctl: hasPrim(f.decl.Body), cbNames: map[string]bool{}}
		for _, p := range f.decl.Type.Params.List {
			if _, ok := p.Type.(*ast.FuncType); ok {
				for _, n := range p.Names {
					g.cbNames[n.Name] = true
				}
			}
		}
		sk[f.name] = g.stmts(f.decl.Body.List)
		if g.err != nil {
			return "", nil, fmt.Errorf("%s: %v", f.name, g.err)
		}
	}
	// relevance: least fixpoint
	relevant := map[string]bool{}
	for changed := true; changed; {
		changed = false
		for _, f := range fns {
			if !relevant[f.name] && skSubstance(skPrune(sk[f.name], relevant)) {
				relevant[f.name] = true
				changed = true
			}
		}
	}
	var names []string
	for _, f := range fns {
		if relevant[f.name] {
			names = append(names, f.name)
		}
	}
	sort.Strings(names)
	rows := make([]string, len(names))
	for i, n := range names {
		rows[i] = "(" + coqString(n) + ",\n    " + skRender(skPrune(sk[n], relevant), "    ") + ")"
	}
	return "[" + strings.Join(rows, ";\n   ") + "]", names, nil
}

func genStoreLocks(repo string) (string, error) {
	mem, memNames, err := skTable(repo, []string{"pkg/storage/mem/store.go", "pkg/storage/mem/maxsize.go"}, true)
	if err != nil {
		return "", fmt.Errorf("pkg/storage/mem: %v", err)
	}
	file, fileNames, err := skTable(repo, []string{"pkg/storage/file/fstore.go", "pkg/storage/file/mbox.go", "pkg/storage/file/fmessage.go"}, false)
	if err != nil {
		return "", fmt.Errorf("pkg/storage/file: %v", err)
	}
	s := "(** GENERATED by /verif/go/cmd/pins from the repository source on every check run.\n" +
		"    C09: synchronisation skeletons (lock/unlock calls, channel operations, callbacks, calls inside the table,\n" +
		"    control structure; the memory store's instrumentation points) of pkg/storage/mem/{store,maxsize}.go and\n" +
		"    pkg/storage/file/{fstore,mbox,fmessage}.go. Functions and statements without any of these are pruned.\n" +
		"    Do not edit. *)\nFrom IV Require Import Model.ConcSk.\n\n"
	s += "(* " + strings.Join(memNames, " ") + " *)\n"
	s += "Definition mem_sk : table :=\n  " + mem + ".\n\n"
	s += "(* " + strings.Join(fileNames, " ") + " *)\n"
	s += "Definition file_sk : table :=\n  " + file + ".\n"
	return s, nil
}
